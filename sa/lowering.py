"""Lowering of newer statement forms to the forms the analyses are written for.

Every rewrite here is meaning-preserving on any tree (each has its side condition; what does not meet it is left as it
is, and the CFG refuses a function that still contains such a form), and none looks at the reference vocabulary:

L1  `match S: case P1: B1 ...`   ->  `if <test of P1 on S>: <captures>; B1  elif ...`
    patterns: literals, `|` of patterns, `as` captures, `_`, bare captures, class patterns `K()` / `K(attr=P)`,
    fixed-length sequence patterns, None/True/False, guards.  S is evaluated once: a name or plain attribute chain is
    used as it is, anything else is bound to a fresh local first.  Captures inside a pattern are written as the path
    they denote in the guard and bound at the top of the case body.
L2  `x := E` evaluated first (and unconditionally) in an `if` / `while` test or a simple statement is hoisted:
    `if (x := E) is None:` -> `x = E; if x is None:`;  `while (x := E) ...: B` -> `while True: x = E; if not (...): break; B`
    (a `while` with an `else` clause is left alone); `while A and (x := E) and C` is split conjunct by conjunct.
L3  `with self.cm(args) [as v]: BODY` where cm is a generator-based context manager of the package
    (`@contextmanager`, shape `PRE; try: yield [E] finally: POST` or `PRE; yield [E]` with nothing after the yield)
    -> `PRE; try: [v = E;] BODY finally: POST` with the parameters bound to the arguments.
L4  a method decorated with a package-local decorator of the shape
    `def deco(fn): def wrapper(self, ...): PRE; return fn(self, ...)` (optionally built by a factory taking constants)
    -> the method's own body is kept as `<name>__undecorated`, the method becomes the wrapper's body calling it
    (the helper is then inlined by the normaliser like any other new helper).
"""
from __future__ import annotations

import ast
import copy
from typing import Any, Dict, List, Optional, Set, Tuple


def _is_plain_chain(e: ast.AST) -> bool:
    while isinstance(e, ast.Attribute):
        e = e.value
    return isinstance(e, ast.Name)


def _functions(tree: ast.Module):
    for n in ast.walk(tree):
        if isinstance(n, (ast.FunctionDef, ast.AsyncFunctionDef)):
            yield n


def _fresh(base: str, taken: Set[str]) -> str:
    k = 1
    while f"{base}{k}" in taken:
        k += 1
    taken.add(f"{base}{k}")
    return f"{base}{k}"


# --------------------------------------------------------------------------- L1 match


class _NoLowering(Exception):
    pass


def _pattern_test(p: ast.AST, subj: ast.AST, caps: List[Tuple[str, ast.AST]]) -> Optional[ast.AST]:
    """Test expression for pattern p on the (pure) subject expression; None = always true.  Captures are appended to caps."""
    S = lambda: copy.deepcopy(subj)  # noqa: E731
    if isinstance(p, ast.MatchValue):
        return ast.Compare(left=S(), ops=[ast.Eq()], comparators=[copy.deepcopy(p.value)])
    if isinstance(p, ast.MatchSingleton):
        return ast.Compare(left=S(), ops=[ast.Is()], comparators=[ast.Constant(value=p.value)])
    if isinstance(p, ast.MatchAs):
        t = _pattern_test(p.pattern, subj, caps) if p.pattern is not None else None
        if p.name is not None:
            caps.append((p.name, S()))
        return t
    if isinstance(p, ast.MatchOr):
        if all(isinstance(q, ast.MatchValue) and isinstance(q.value, ast.Constant) for q in p.patterns):
            return ast.Compare(left=S(), ops=[ast.In()], comparators=[ast.Tuple(elts=[copy.deepcopy(q.value) for q in p.patterns], ctx=ast.Load())])
        tests = []
        for q in p.patterns:
            sub: List[Tuple[str, ast.AST]] = []
            t = _pattern_test(q, subj, sub)
            if sub:
                raise _NoLowering("captures inside an or-pattern")
            if t is None:
                return None
            tests.append(t)
        return ast.BoolOp(op=ast.Or(), values=tests)
    if isinstance(p, ast.MatchClass):
        if p.patterns:
            raise _NoLowering("positional sub-patterns of a class pattern (__match_args__)")
        tests = [ast.Call(func=ast.Name(id="isinstance", ctx=ast.Load()), args=[S(), copy.deepcopy(p.cls)], keywords=[])]
        for a, q in zip(p.kwd_attrs, p.kwd_patterns):
            t = _pattern_test(q, ast.Attribute(value=S(), attr=a, ctx=ast.Load()), caps)
            if t is not None:
                tests.append(t)
        return tests[0] if len(tests) == 1 else ast.BoolOp(op=ast.And(), values=tests)
    if isinstance(p, ast.MatchSequence):
        if any(isinstance(q, ast.MatchStar) for q in p.patterns):
            raise _NoLowering("star pattern")
        tests = [ast.Call(func=ast.Name(id="isinstance", ctx=ast.Load()), args=[S(), ast.Tuple(elts=[ast.Name(id="list", ctx=ast.Load()), ast.Name(id="tuple", ctx=ast.Load())], ctx=ast.Load())], keywords=[]),
                 ast.Compare(left=ast.Call(func=ast.Name(id="len", ctx=ast.Load()), args=[S()], keywords=[]), ops=[ast.Eq()], comparators=[ast.Constant(value=len(p.patterns))])]
        for i, q in enumerate(p.patterns):
            t = _pattern_test(q, ast.Subscript(value=S(), slice=ast.Constant(value=i), ctx=ast.Load()), caps)
            if t is not None:
                tests.append(t)
        return ast.BoolOp(op=ast.And(), values=tests)
    raise _NoLowering(type(p).__name__)


class _SubstNames(ast.NodeTransformer):
    def __init__(self, m: Dict[str, ast.AST]):
        self.m = m

    def visit_Name(self, n: ast.Name):
        if isinstance(n.ctx, ast.Load) and n.id in self.m:
            return copy.deepcopy(self.m[n.id])
        return n


def _lower_one_match(st: ast.Match, taken: Set[str]) -> Optional[List[ast.stmt]]:
    pre: List[ast.stmt] = []
    subj = st.subject
    if not (_is_plain_chain(subj)):
        tmp = _fresh("match_subject__", taken)
        pre.append(ast.Assign(targets=[ast.Name(id=tmp, ctx=ast.Store())], value=subj))
        subj = ast.Name(id=tmp, ctx=ast.Load())
    # a case body that re-binds the subject's root name is fine (the tests were all evaluated before the body runs
    # in an if/elif chain exactly as in the match)
    branches: List[Tuple[Optional[ast.AST], List[ast.stmt]]] = []
    try:
        for case in st.cases:
            caps: List[Tuple[str, ast.AST]] = []
            t = _pattern_test(case.pattern, subj, caps)
            body = list(case.body)
            if case.guard is not None:
                g = _SubstNames({n: e for n, e in caps}).visit(copy.deepcopy(case.guard))
                t = g if t is None else ast.BoolOp(op=ast.And(), values=[t, g])
            # a capture nobody reads in the case body (it only served the guard, where it is written as its path) is not bound
            used_in_body = {x.id for b_ in case.body for x in ast.walk(b_) if isinstance(x, ast.Name)}
            caps = [(n, e) for n, e in caps if n in used_in_body]
            if caps:
                # a capture that is bound although the guard fails is visible afterwards in a match; here it is bound
                # only when the case is taken.  Refuse when a captured name is used outside this case.
                body = [ast.Assign(targets=[ast.Name(id=n, ctx=ast.Store())], value=e) for n, e in caps] + body
            branches.append((t, body))
            if t is None:
                break
    except _NoLowering:
        return None
    # captured names must not be read after the match outside their case: checked by the caller (conservatively: names
    # captured are not used anywhere else in the function)
    node: Optional[ast.stmt] = None
    tail: List[ast.stmt] = []
    for t, body in reversed(branches):
        if t is None:
            tail = body
            continue
        new_if = ast.If(test=t, body=body, orelse=tail)
        tail = [new_if]
    out = pre + (tail if tail else [ast.Pass()])
    for x in out:
        ast.copy_location(x, st)
    return out


def _captured_names(st: ast.Match) -> Set[str]:
    out = set()
    for c in st.cases:
        for x in ast.walk(c.pattern):
            if isinstance(x, ast.MatchAs) and x.name:
                out.add(x.name)
            if isinstance(x, ast.MatchStar) and x.name:
                out.add(x.name)
    return out


def lower_match(tree: ast.Module) -> List[str]:
    done: List[str] = []
    for fn in list(_functions(tree)):
        if not any(isinstance(x, ast.Match) for x in ast.walk(fn)):
            continue
        taken = {x.id for x in ast.walk(fn) if isinstance(x, ast.Name)} | {a.arg for a in ast.walk(fn) if isinstance(a, ast.arg)}
        changed = True
        while changed:
            changed = False
            for holder in ast.walk(fn):
                for field in ("body", "orelse", "finalbody"):
                    blk = getattr(holder, field, None)
                    if not isinstance(blk, list):
                        continue
                    for i, st in enumerate(blk):
                        if not isinstance(st, ast.Match):
                            continue
                        caps = _captured_names(st)
                        if caps:
                            inside = {id(x) for c in st.cases for x in ast.walk(c)}
                            outside_use = any(isinstance(x, ast.Name) and x.id in caps and id(x) not in inside for x in ast.walk(fn))
                            # a name captured in one case and read in another case's body would see a stale binding either way
                            if outside_use:
                                continue
                        new = _lower_one_match(st, taken)
                        if new is None:
                            continue
                        blk[i:i + 1] = new
                        done.append(f"{fn.name}: match on `{ast.unparse(st.subject)[:40]}` written as an if/elif chain ({len(st.cases)} cases)")
                        changed = True
                        break
                    if changed:
                        break
                if changed:
                    break
        ast.fix_missing_locations(fn)
    return done


# --------------------------------------------------------------------------- L2 walrus


def _first_evaluated_walrus(e: ast.AST) -> Optional[ast.NamedExpr]:
    """The NamedExpr that is evaluated before anything else of e that could have an effect, if e starts that way."""
    cur = e
    while True:
        if isinstance(cur, ast.NamedExpr):
            return cur
        if isinstance(cur, ast.BoolOp):
            cur = cur.values[0]
        elif isinstance(cur, ast.Compare):
            cur = cur.left
        elif isinstance(cur, ast.BinOp):
            cur = cur.left
        elif isinstance(cur, ast.UnaryOp):
            cur = cur.operand
        elif isinstance(cur, ast.Attribute):
            cur = cur.value
        elif isinstance(cur, ast.Subscript):
            cur = cur.value
        elif isinstance(cur, ast.IfExp):
            cur = cur.test
        elif isinstance(cur, ast.Call):
            if isinstance(cur.func, ast.Name) or (_is_plain_chain(cur.func) and False):
                if cur.args and not isinstance(cur.args[0], ast.Starred):
                    cur = cur.args[0]
                else:
                    return None
            else:
                cur = cur.func
        else:
            return None


class _ReplaceNode(ast.NodeTransformer):
    def __init__(self, old: ast.AST, new: ast.AST):
        self.old, self.new = old, new

    def visit(self, node):
        if node is self.old:
            return self.new
        return super().visit(node)


def _hoist_from_expr(e: ast.AST) -> Tuple[Optional[ast.stmt], ast.AST]:
    w = _first_evaluated_walrus(e)
    if w is None or not isinstance(w.target, ast.Name):
        return None, e
    asg = ast.Assign(targets=[ast.Name(id=w.target.id, ctx=ast.Store())], value=w.value)
    new = _ReplaceNode(w, ast.Name(id=w.target.id, ctx=ast.Load())).visit(e)
    return asg, new


def _negate(e: ast.AST) -> ast.AST:
    if isinstance(e, ast.UnaryOp) and isinstance(e.op, ast.Not):
        return e.operand
    return ast.UnaryOp(op=ast.Not(), operand=e)


def hoist_walrus(tree: ast.Module) -> List[str]:
    done: List[str] = []
    for fn in list(_functions(tree)):
        if not any(isinstance(x, ast.NamedExpr) for x in ast.walk(fn)):
            continue
        changed = True
        rounds = 0
        while changed and rounds < 50:
            changed = False
            rounds += 1
            for holder in ast.walk(fn):
                for field in ("body", "orelse", "finalbody"):
                    blk = getattr(holder, field, None)
                    if not isinstance(blk, list):
                        continue
                    for i, st in enumerate(blk):
                        new: Optional[List[ast.stmt]] = None
                        if isinstance(st, ast.If):
                            asg, t = _hoist_from_expr(st.test)
                            if asg is not None:
                                st.test = t
                                new = [asg, st]
                            elif isinstance(st.test, ast.BoolOp) and isinstance(st.test.op, ast.And) and not st.orelse and any(isinstance(x, ast.NamedExpr) for x in ast.walk(st.test)):
                                # `if A and (x := E) ...: B` without else  ->  `if A: x = E; if ...: B`
                                first, rest = st.test.values[0], st.test.values[1:]
                                inner_test = rest[0] if len(rest) == 1 else ast.BoolOp(op=ast.And(), values=rest)
                                inner = ast.If(test=inner_test, body=st.body, orelse=[])
                                new = [ast.If(test=first, body=[inner], orelse=[])]
                        elif isinstance(st, ast.While) and not st.orelse and any(isinstance(x, ast.NamedExpr) for x in ast.walk(st.test)):
                            conj = st.test.values if isinstance(st.test, ast.BoolOp) and isinstance(st.test.op, ast.And) else [st.test]
                            head: List[ast.stmt] = []
                            okc = True
                            for c in conj:
                                asg, t = _hoist_from_expr(c)
                                if asg is None and any(isinstance(x, ast.NamedExpr) for x in ast.walk(c)):
                                    okc = False
                                    break
                                if asg is not None:
                                    head.append(asg)
                                head.append(ast.If(test=_negate(t), body=[ast.Break()], orelse=[]))
                            if okc:
                                new = [ast.While(test=ast.Constant(value=True), body=head + st.body, orelse=[])]
                        elif isinstance(st, (ast.Assign, ast.AugAssign, ast.AnnAssign, ast.Expr, ast.Return)) and getattr(st, "value", None) is not None:
                            if isinstance(st, ast.Assign) and not all(isinstance(t_, ast.Name) for t_ in st.targets):
                                pass
                            elif isinstance(st, ast.Expr) and isinstance(st.value, ast.NamedExpr) and isinstance(st.value.target, ast.Name):
                                new = [ast.Assign(targets=[ast.Name(id=st.value.target.id, ctx=ast.Store())], value=st.value.value)]
                            else:
                                asg, v = _hoist_from_expr(st.value)
                                if asg is not None:
                                    st.value = v
                                    new = [asg, st]
                        if new is not None:
                            for x in new:
                                ast.copy_location(x, st)
                            blk[i:i + 1] = new
                            done.append(f"{fn.name}: assignment expression hoisted out of `{type(st).__name__.lower()}`")
                            changed = True
                            break
                    if changed:
                        break
                if changed:
                    break
        ast.fix_missing_locations(fn)
    return done


# --------------------------------------------------------------------------- L3 context managers


def _is_cm_decorator(d: ast.AST) -> bool:
    t = ast.unparse(d)
    return t in ("contextmanager", "contextlib.contextmanager")


def _cm_shape(fn: ast.FunctionDef) -> Optional[Tuple[List[ast.stmt], Optional[ast.AST], List[ast.stmt]]]:
    """(PRE, yielded expression or None, POST) for `PRE; try: yield [E] finally: POST` or `PRE; yield [E]`."""
    body = [s for s in fn.body if not (isinstance(s, ast.Expr) and isinstance(s.value, ast.Constant) and isinstance(s.value.value, str))]
    if not body:
        return None
    last = body[-1]
    pre = body[:-1]
    if any(isinstance(x, (ast.Yield, ast.YieldFrom, ast.Return)) for s in pre for x in ast.walk(s)):
        return None

    def yielded(s: ast.stmt) -> Optional[Tuple[Optional[ast.AST]]]:
        if isinstance(s, ast.Expr) and isinstance(s.value, ast.Yield):
            return (s.value.value,)
        return None

    y = yielded(last)
    if y is not None:
        return pre, y[0], []
    if isinstance(last, ast.Try) and not last.handlers and not last.orelse and last.body and yielded(last.body[-1]) is not None:
        if any(isinstance(x, (ast.Yield, ast.YieldFrom, ast.Return)) for s in list(last.finalbody) + list(last.body[:-1]) for x in ast.walk(s)):
            return None
        # statements of the try body in front of the yield run under the same finally in the lowered form
        _TRY_PRE[id(fn)] = list(last.body[:-1])
        return pre, yielded(last.body[-1])[0], list(last.finalbody)
    return None


_TRY_PRE: Dict[int, List[ast.stmt]] = {}


def inline_context_managers(tree: ast.Module) -> List[str]:
    done: List[str] = []
    cms: Dict[str, Tuple[ast.FunctionDef, bool]] = {}
    for holder in [tree] + [c for c in tree.body if isinstance(c, ast.ClassDef)]:
        for f in holder.body:
            if isinstance(f, ast.FunctionDef) and any(_is_cm_decorator(d) for d in f.decorator_list) and _cm_shape(f) is not None:
                cms[f.name] = (f, isinstance(holder, ast.ClassDef))
    if not cms:
        return done
    counter = [0]
    used: Set[str] = set()
    for fn in list(_functions(tree)):
        if fn.name in cms:
            continue
        changed = True
        while changed:
            changed = False
            for holder in ast.walk(fn):
                for field in ("body", "orelse", "finalbody"):
                    blk = getattr(holder, field, None)
                    if not isinstance(blk, list):
                        continue
                    for i, st in enumerate(blk):
                        if not (isinstance(st, ast.With) and len(st.items) == 1 and isinstance(st.items[0].context_expr, ast.Call)):
                            continue
                        call = st.items[0].context_expr
                        f = call.func
                        name = None
                        method = False
                        if isinstance(f, ast.Attribute) and isinstance(f.value, ast.Name) and f.value.id == "self" and f.attr in cms and cms[f.attr][1]:
                            name, method = f.attr, True
                        elif isinstance(f, ast.Name) and f.id in cms and not cms[f.id][1]:
                            name = f.id
                        if name is None or call.keywords and any(k.arg is None for k in call.keywords) or any(isinstance(a, ast.Starred) for a in call.args):
                            continue
                        cmfn = cms[name][0]
                        _TRY_PRE.pop(id(cmfn), None)
                        pre, yv, post = _cm_shape(cmfn)  # type: ignore[misc]
                        try_pre = _TRY_PRE.get(id(cmfn), [])
                        params = [a.arg for a in cmfn.args.args]
                        if method:
                            params = params[1:]
                        if cmfn.args.vararg or cmfn.args.kwarg or cmfn.args.kwonlyargs or cmfn.args.defaults:
                            continue
                        if len(call.args) + len(call.keywords) != len(params):
                            continue
                        binding: Dict[str, ast.AST] = dict(zip(params, call.args))
                        for k in call.keywords:
                            binding[k.arg] = k.value  # type: ignore[index]
                        if set(binding) != set(params):
                            continue
                        counter[0] += 1
                        tag = f"__cm{counter[0]}"
                        # locals of the manager (parameters included) get fresh names
                        loc = set(params)
                        for s in pre + try_pre + post:
                            for x in ast.walk(s):
                                if isinstance(x, ast.Name) and isinstance(x.ctx, ast.Store):
                                    loc.add(x.id)
                        ren = {n: n + tag for n in loc}

                        class _R(ast.NodeTransformer):
                            def visit_Name(self, n: ast.Name):
                                if n.id in ren:
                                    return ast.copy_location(ast.Name(id=ren[n.id], ctx=n.ctx), n)
                                return n

                        new_pre = [ast.Assign(targets=[ast.Name(id=ren[p], ctx=ast.Store())], value=binding[p]) for p in params]
                        new_pre += [_R().visit(copy.deepcopy(s)) for s in pre]
                        new_post = [_R().visit(copy.deepcopy(s)) for s in post]
                        body = list(st.body)
                        if st.items[0].optional_vars is not None:
                            if yv is None:
                                val: ast.AST = ast.Constant(value=None)
                            else:
                                val = _R().visit(copy.deepcopy(yv))
                            body = [ast.Assign(targets=[st.items[0].optional_vars], value=val)] + body
                        elif yv is not None:
                            body = [ast.Expr(value=_R().visit(copy.deepcopy(yv)))] + body if not isinstance(yv, (ast.Name, ast.Constant, ast.Attribute)) else body
                        body = [_R().visit(copy.deepcopy(s)) for s in try_pre] + body
                        if new_post:
                            new_stmts: List[ast.stmt] = new_pre + [ast.Try(body=body, handlers=[], orelse=[], finalbody=new_post)]
                        else:
                            new_stmts = new_pre + body
                        for x in new_stmts:
                            ast.copy_location(x, st)
                        blk[i:i + 1] = new_stmts
                        used.add(name)
                        done.append(f"{fn.name}: `with {ast.unparse(call)[:50]}` written as the manager's own set-up / try / finally")
                        changed = True
                        break
                    if changed:
                        break
                if changed:
                    break
        ast.fix_missing_locations(fn)
    # a manager all of whose uses were inlined is dropped
    for name in used:
        still = any((isinstance(x, ast.Attribute) and x.attr == name) or (isinstance(x, ast.Name) and x.id == name) for x in ast.walk(tree) if not isinstance(x, ast.FunctionDef))
        if not still:
            for holder in [tree] + [c for c in tree.body if isinstance(c, ast.ClassDef)]:
                holder.body[:] = [s for s in holder.body if not (isinstance(s, ast.FunctionDef) and s.name == name and s is cms[name][0])] or [ast.Pass()]
            done.append(f"dropped the fully inlined context manager {name}")
    return done


# --------------------------------------------------------------------------- L4 decorators


def _decorator_shape(fn: ast.FunctionDef) -> Optional[Tuple[str, ast.FunctionDef]]:
    """`def deco(f): [@wraps(f)] def wrapper(...): ...; return wrapper`  ->  (name of f, wrapper)"""
    if len(fn.args.args) != 1 or fn.args.vararg or fn.args.kwarg or fn.args.kwonlyargs:
        return None
    body = [s for s in fn.body if not (isinstance(s, ast.Expr) and isinstance(s.value, ast.Constant))]
    if len(body) != 2 or not isinstance(body[0], ast.FunctionDef) or not isinstance(body[1], ast.Return):
        return None
    rv = body[1].value
    if isinstance(rv, ast.Call) and ast.unparse(rv.func) in ("typing.cast", "cast") and len(rv.args) == 2:
        rv = rv.args[1]  # typing.cast returns its second argument
    if not (isinstance(rv, ast.Name) and rv.id == body[0].name):
        return None
    w = body[0]
    for d in w.decorator_list:
        if not (isinstance(d, ast.Call) and ast.unparse(d.func) in ("functools.wraps", "wraps")):
            return None
    return fn.args.args[0].arg, w


def _factory_shape(fn: ast.FunctionDef) -> Optional[Tuple[List[str], ast.FunctionDef]]:
    """`def make(a, b): def deco(f): ...; return deco`  ->  (factory parameters, deco)"""
    if fn.args.vararg or fn.args.kwarg or fn.args.kwonlyargs or fn.args.defaults:
        return None
    body = [s for s in fn.body if not (isinstance(s, ast.Expr) and isinstance(s.value, ast.Constant))]
    if len(body) != 2 or not isinstance(body[0], ast.FunctionDef) or not (isinstance(body[1], ast.Return) and isinstance(body[1].value, ast.Name) and body[1].value.id == body[0].name):
        return None
    if _decorator_shape(body[0]) is None:
        return None
    return [a.arg for a in fn.args.args], body[0]


def inline_decorators(tree: ast.Module, known_functions: Set[str]) -> List[str]:
    done: List[str] = []
    decos: Dict[str, Any] = {}
    for f in tree.body:
        if isinstance(f, ast.FunctionDef) and f.name not in known_functions:
            fs = _factory_shape(f)
            if fs is not None:
                decos[f.name] = ("factory", fs)
                continue
            d = _decorator_shape(f)
            if d is not None:
                decos[f.name] = ("plain", d)
    if not decos:
        return done
    used: Set[str] = set()
    for cls in [c for c in tree.body if isinstance(c, ast.ClassDef)]:
        for idx, m in list(enumerate(cls.body)):
            if not isinstance(m, ast.FunctionDef) or len(m.decorator_list) != 1:
                continue
            d = m.decorator_list[0]
            consts: Dict[str, ast.AST] = {}
            if isinstance(d, ast.Name) and d.id in decos and decos[d.id][0] == "plain":
                fparam, wrapper = decos[d.id][1]
                dname = d.id
            elif isinstance(d, ast.Call) and isinstance(d.func, ast.Name) and d.func.id in decos and decos[d.func.id][0] == "factory" and not d.keywords:
                fparams, deco = decos[d.func.id][1]
                if len(d.args) != len(fparams) or not all(isinstance(a, (ast.Constant, ast.Name, ast.Attribute)) for a in d.args):
                    continue
                consts = dict(zip(fparams, d.args))
                fparam, wrapper = _decorator_shape(deco)  # type: ignore[misc]
                dname = d.func.id
            else:
                continue
            if m.args.vararg or m.args.kwarg or m.args.kwonlyargs:
                continue
            mparams = [a.arg for a in m.args.args]
            wparams = [a.arg for a in wrapper.args.args]
            generic = wrapper.args.vararg is not None or wrapper.args.kwarg is not None
            if not generic and len(wparams) != len(mparams):
                continue
            if generic and len(wparams) > len(mparams):
                continue
            # the wrapper's explicit parameters are the method's leading parameters (renamed positionally)
            ren = {w: p for w, p in zip(wparams, mparams)}
            va = wrapper.args.vararg.arg if wrapper.args.vararg else None
            kw = wrapper.args.kwarg.arg if wrapper.args.kwarg else None
            rest = mparams[len(wparams):]
            orig_name = f"{m.name}__undecorated"
            okc = [True]

            class _W(ast.NodeTransformer):
                def visit_FunctionDef(self, n):  # nested functions: not expected
                    okc[0] = False
                    return n

                def visit_Name(self, n: ast.Name):
                    if n.id in consts and isinstance(n.ctx, ast.Load):
                        return copy.deepcopy(consts[n.id])
                    if n.id in ren:
                        return ast.copy_location(ast.Name(id=ren[n.id], ctx=n.ctx), n)
                    if n.id in (va, kw):
                        okc[0] = False  # used other than in the forwarding call
                    return n

                def visit_Call(self, c: ast.Call):
                    if isinstance(c.func, ast.Name) and c.func.id == fparam:
                        args: List[ast.AST] = []
                        for a in c.args:
                            if isinstance(a, ast.Starred) and isinstance(a.value, ast.Name) and a.value.id == va:
                                args += [ast.Name(id=r, ctx=ast.Load()) for r in rest]
                            elif isinstance(a, ast.Starred):
                                okc[0] = False
                            else:
                                args.append(self.visit(a))
                        for k in c.keywords:
                            if not (k.arg is None and isinstance(k.value, ast.Name) and k.value.id == kw):
                                okc[0] = False
                        if not args or not (isinstance(args[0], ast.Name) and args[0].id == mparams[0]):
                            okc[0] = False
                            return c
                        return ast.Call(func=ast.Attribute(value=ast.Name(id=mparams[0], ctx=ast.Load()), attr=orig_name, ctx=ast.Load()), args=args[1:], keywords=[])
                    return self.generic_visit(c)

            new_body = [_W().visit(copy.deepcopy(s)) for s in wrapper.body if not (isinstance(s, ast.Expr) and isinstance(s.value, ast.Constant) and isinstance(s.value.value, str))]
            if not okc[0] or any(isinstance(x, ast.Name) and x.id == fparam for s in new_body for x in ast.walk(s)):
                continue
            orig = copy.deepcopy(m)
            orig.name = orig_name
            orig.decorator_list = []
            m.decorator_list = []
            m.body = new_body
            cls.body.insert(cls.body.index(m) + 1, orig)
            used.add(dname)
            done.append(f"{cls.name}.{m.name}: decorator {dname} written out (own body kept as {orig_name})")
    for name in used:
        still = any(isinstance(x, ast.Name) and x.id == name for x in ast.walk(tree))
        if not still:
            tree.body[:] = [s for s in tree.body if not (isinstance(s, ast.FunctionDef) and s.name == name)]
            done.append(f"dropped the written-out decorator {name}")
    if done:
        ast.fix_missing_locations(tree)
    return done


# --------------------------------------------------------------------------- L5 typing.cast


class _StripCast(ast.NodeTransformer):
    def __init__(self):
        self.n = 0

    def visit_Call(self, c: ast.Call):
        self.generic_visit(c)
        if ast.unparse(c.func) in ("typing.cast", "cast") and len(c.args) == 2 and not c.keywords and not isinstance(c.args[0], ast.Constant) | False:
            # typing.cast(T, e) returns e; T is a type expression (names and subscripts of names)
            if all(isinstance(x, (ast.Name, ast.Attribute, ast.Subscript, ast.Tuple, ast.Load, ast.Constant)) for x in ast.walk(c.args[0])):
                self.n += 1
                return c.args[1]
        return c


def strip_casts(tree: ast.Module) -> List[str]:
    t = _StripCast()
    for fn in list(_functions(tree)):
        t.visit(fn)
    if t.n:
        ast.fix_missing_locations(tree)
        return [f"{t.n} typing.cast(T, e) call(s) read as e"]
    return []


# --------------------------------------------------------------------------- L6 new helper modules


def merge_new_modules(trees: Dict[str, ast.Module], known_modules: Set[str]) -> Dict[str, List[str]]:
    """A module the reference does not know, made only of imports, function definitions and constant bindings, whose names
    are imported `from .<module> import a, b` by a known module: its body is copied into the importer (in front of the
    importer's first definition), the import is dropped.  Functions and constants mean the same wherever they are defined;
    the copied helpers are then ordinary new helpers of the importer."""
    log: Dict[str, List[str]] = {}
    for new_name, nt in trees.items():
        if new_name in known_modules or "." in new_name and new_name.split(".")[0] in ("_ply",):
            continue
        body = [st for st in nt.body if not (isinstance(st, ast.Expr) and isinstance(st.value, ast.Constant))]
        simple = all(isinstance(st, (ast.Import, ast.ImportFrom, ast.FunctionDef)) or
                     (isinstance(st, (ast.Assign, ast.AnnAssign)) and getattr(st, "value", None) is not None and
                      not any(isinstance(x, (ast.Call, ast.List, ast.Dict, ast.Set, ast.ListComp, ast.DictComp, ast.SetComp)) and not (isinstance(x, ast.Call) and ast.unparse(x.func).startswith(("typing.", "re.compile", "frozenset"))) for x in ast.walk(st.value)))
                     for st in body)
        if not body or not simple:
            continue
        defined = set()
        for st in body:
            if isinstance(st, ast.FunctionDef):
                defined.add(st.name)
            elif isinstance(st, (ast.Assign, ast.AnnAssign)):
                for t in (st.targets if isinstance(st, ast.Assign) else [st.target]):
                    if isinstance(t, ast.Name):
                        defined.add(t.id)
        leaf = new_name.split(".")[-1]
        for imp_name, it in trees.items():
            if imp_name == new_name or imp_name not in known_modules:
                continue
            for k, st in enumerate(list(it.body)):
                if not (isinstance(st, ast.ImportFrom) and st.level >= 1 and st.module == leaf and all(a.asname is None and a.name in defined for a in st.names)):
                    continue
                own = set()
                for x in it.body:
                    if isinstance(x, (ast.FunctionDef, ast.ClassDef)):
                        own.add(x.name)
                    elif isinstance(x, (ast.Assign, ast.AnnAssign)):
                        for t in (x.targets if isinstance(x, ast.Assign) else [x.target]):
                            if isinstance(t, ast.Name):
                                own.add(t.id)
                if own & defined:
                    continue
                have_imports = {ast.unparse(x) for x in it.body if isinstance(x, (ast.Import, ast.ImportFrom))}
                copied = [copy.deepcopy(b) for b in body if not (isinstance(b, (ast.Import, ast.ImportFrom)) and (ast.unparse(b) in have_imports or (isinstance(b, ast.ImportFrom) and b.module == "__future__")))]
                # relative imports of the new module keep their meaning only at the same package level
                if new_name.count(".") != imp_name.count("."):
                    continue
                it.body[k:k + 1] = copied
                log.setdefault(imp_name, []).append(f"new module {new_name} ({', '.join(sorted(defined))}) read as part of this module")
                break
    for t in trees.values():
        ast.fix_missing_locations(t)
    return log


# --------------------------------------------------------------------------- L7 getattr with a constant name


class _FoldGetattr2(ast.NodeTransformer):
    def __init__(self):
        self.n = 0

    def visit_Call(self, c: ast.Call):
        self.generic_visit(c)
        if isinstance(c.func, ast.Name) and c.func.id == "getattr" and len(c.args) == 2 and not c.keywords and isinstance(c.args[1], ast.Constant) \
                and isinstance(c.args[1].value, str) and c.args[1].value.isidentifier() and not c.args[1].value.startswith("__"):
            self.n += 1
            return ast.copy_location(ast.Attribute(value=c.args[0], attr=c.args[1].value, ctx=ast.Load()), c)
        return c


def fold_getattr(tree: ast.Module) -> List[str]:
    """`getattr(x, "name")` (two arguments, a constant identifier) is `x.name`"""
    t = _FoldGetattr2()
    for fn in list(_functions(tree)):
        if any(isinstance(x, ast.FunctionDef) and x is not fn and x.name == "getattr" for x in ast.walk(fn)):
            continue
        t.visit(fn)
    if t.n:
        ast.fix_missing_locations(tree)
        return [f"{t.n} getattr(x, 'name') call(s) read as x.name"]
    return []


# --------------------------------------------------------------------------- L8 keyword arguments of constructor calls


def positional_constructor_arguments(trees: Dict[str, ast.Module]) -> Dict[str, List[str]]:
    """`K(parent=a, location=b, namespace=c)` for a package class K with an explicit `__init__(self, parent, location,
    namespace)` is `K(a, b, c)` when the keywords are written in parameter order and fill the leading parameters without
    a gap (arguments are evaluated in the order written either way).  Dataclasses (no explicit __init__) are left alone."""
    sigs: Dict[str, List[str]] = {}
    dup: Set[str] = set()
    for t in trees.values():
        for c in t.body:
            if not isinstance(c, ast.ClassDef):
                continue
            for m in c.body:
                if isinstance(m, ast.FunctionDef) and m.name == "__init__" and not m.args.vararg and not m.args.kwarg and not m.args.kwonlyargs and not m.args.posonlyargs:
                    if c.name in sigs:
                        dup.add(c.name)
                    sigs[c.name] = [a.arg for a in m.args.args[1:]]
    for d in dup:
        sigs.pop(d, None)
    log: Dict[str, List[str]] = {}
    for name, t in trees.items():
        n = 0
        for c in ast.walk(t):
            if not (isinstance(c, ast.Call) and c.keywords and all(k.arg for k in c.keywords)):
                continue
            cn = c.func.id if isinstance(c.func, ast.Name) else (c.func.attr if isinstance(c.func, ast.Attribute) and isinstance(c.func.value, ast.Name) else None)
            if cn not in sigs or any(isinstance(a, ast.Starred) for a in c.args):
                continue
            params = sigs[cn]
            want = params[len(c.args):len(c.args) + len(c.keywords)]
            if [k.arg for k in c.keywords] != want:
                continue
            c.args = list(c.args) + [k.value for k in c.keywords]
            c.keywords = []
            n += 1
        if n:
            log[name] = [f"{n} constructor call(s) with keyword arguments in parameter order written positionally"]
    return log


# --------------------------------------------------------------------------- L9 identity tests of booleans


class _BoolIdentity(ast.NodeTransformer):
    def __init__(self):
        self.n = 0

    def visit_Compare(self, c: ast.Compare):
        self.generic_visit(c)
        if len(c.ops) == 1 and isinstance(c.ops[0], (ast.Is, ast.IsNot)) and isinstance(c.comparators[0], ast.Constant) and isinstance(c.comparators[0].value, bool):
            inner = c.left
            # membership and identity tests always give a bool: `(a in b) is False` is `not (a in b)`
            if isinstance(inner, ast.Compare) and len(inner.ops) == 1 and isinstance(inner.ops[0], (ast.In, ast.NotIn, ast.Is, ast.IsNot)):
                want_true = c.comparators[0].value is isinstance(c.ops[0], ast.Is)
                self.n += 1
                if want_true:
                    return inner
                flip = {ast.In: ast.NotIn, ast.NotIn: ast.In, ast.Is: ast.IsNot, ast.IsNot: ast.Is}[type(inner.ops[0])]
                return ast.copy_location(ast.Compare(left=inner.left, ops=[flip()], comparators=inner.comparators), c)
        return c


def simplify_bool_identity(tree: ast.Module) -> List[str]:
    t = _BoolIdentity()
    for fn in list(_functions(tree)):
        t.visit(fn)
    if t.n:
        ast.fix_missing_locations(tree)
        return [f"{t.n} `(a in b) is False/True` test(s) written as membership tests"]
    return []
