"""Positive and negative controls for the control run (sa/selftest.py).

Each edit is (file relative to cxxheaderparser/, old text, new text); the old
text must occur exactly once.  Positive controls name the property to run and
the rule-id prefixes of which at least one must fire.  Negative controls are
behaviour-preserving rewrites: every property must stay silent."""

P = "parser.py"
L = "lexer.py"
T = "tokfmt.py"
TY = "types.py"
S = "simple.py"
V = "visitor.py"
PS = "parserstate.py"
PP = "preprocessor.py"


def pos(name, props, expect, *edits):
    return {"name": name, "kind": "positive", "props": props, "expect": expect, "edits": list(edits)}


def neg(name, *edits):
    return {"name": name, "kind": "negative", "edits": list(edits)}


CONTROLS = [
    # ------------------------------------------------------------------ KIND
    pos("kind: namespace guard deleted", ["C04", "C06"], ["R4.6", "R6.4"],
        (P, '''        state = self.state
        if not isinstance(state, (NamespaceBlockState, ExternBlockState)):
            raise CxxParseError("namespace cannot be defined in a class")

        if ns_alias:''', '''        state = self.state

        if ns_alias:''')),
    pos("kind: concept guard deleted", ["C04", "C06"], ["R4.6", "R6.4"],
        (P, '''        if isinstance(state, ClassBlockState):
            raise CxxParseError("concept cannot be defined in a class")
''', '')),
    pos("kind: access specifier guard deleted", ["C06"], ["R6.4"],
        (P, '''        state = self.state
        if not isinstance(state, ClassBlockState):
            raise self._parse_error(tok)

        state._set_access(tok.value)''', '''        state = self.state

        state._set_access(tok.value)''')),
    pos("kind: friend guard deleted", ["C06"], ["R6.4"],
        (P, '''        if not isinstance(self.state, ClassBlockState):
            raise self._parse_error(tok)

        tok = self.lex.token()
        self._parse_declarations(tok, doxygen, template, is_friend=True)''', '''        tok = self.lex.token()
        self._parse_declarations(tok, doxygen, template, is_friend=True)''')),
    pos("kind: extern-in-class guard deleted", ["C04", "C06"], ["R4.6", "R6.4"],
        (P, '''            if isinstance(state, ClassBlockState):
                raise self._parse_error(tok)

            if etok.type == "STRING_LITERAL":''', '''            if etok.type == "STRING_LITERAL":''')),
    pos("kind: using-directive guard deleted", ["C04", "C06"], ["R4.6", "R6.4"],
        (P, '''            if not isinstance(state, (NamespaceBlockState, ExternBlockState)):
                raise self._parse_error(tok)

            self._parse_using_directive(state)''', '''            self._parse_using_directive(state)''')),
    # ------------------------------------------------------------------ typestate / who-may-call
    pos("typestate: end callback issued directly", ["C04"], ["R4.3"],
        (P, '''        old_state = self._pop_state()
        if isinstance(old_state, ClassBlockState):''', '''        old_state = self._pop_state()
        self.visitor.on_namespace_end(old_state)
        if isinstance(old_state, ClassBlockState):''')),
    pos("typestate: stale state alias across a push", ["C04"], ["R4.5"],
        (P, '''        if self.visitor.on_class_start(state) is False:
            self.visitor = null_visitor''', '''        outer = self.state
        if self.visitor.on_class_start(state) is False:
            self.visitor = null_visitor''',),
        (P, '''        state: ClassBlockState = ClassBlockState(
            self.state, location, clsdecl, default_access, typedef, mods
        )
        self._setup_state(state)
''', '''        state: ClassBlockState = ClassBlockState(
            self.state, location, clsdecl, default_access, typedef, mods
        )
        before = self.state
        self._setup_state(state)
        self.visitor.on_pragma(before, self._create_value([]))
''')),
    pos("own: extra writer of self.state", ["C04"], ["R4.4"],
        (P, '''    def _on_block_end(self, tok: LexToken, doxygen: typing.Optional[str]) -> None:
        old_state = self._pop_state()''', '''    def _on_block_end(self, tok: LexToken, doxygen: typing.Optional[str]) -> None:
        old_state = self._pop_state()
        if old_state.parent is not None:
            self.state = old_state.parent''')),
    pos("exception: narrowed catch-all", ["C04", "C06"], ["R4.8", "R6.1"],
        (P, "        except Exception as e:\n            if self.verbose:", "        except CxxParseError as e:\n            if self.verbose:")),
    pos("exception: cause dropped", ["C04", "C06"], ["R4.8", "R6.1"],
        (P, "            raise CxxParseError(msg) from e", "            raise CxxParseError(msg)")),
    pos("exception: swallowing handler around emitting code", ["C04"], ["R4.8"],
        (P, '''                else:
                    # this processes ambiguous declarations
                    self._parse_declarations(tok, doxygen)
                    doxygen = None''', '''                else:
                    # this processes ambiguous declarations
                    try:
                        self._parse_declarations(tok, doxygen)
                    except EOFError:
                        pass
                    doxygen = None''')),
    pos("start: parent read before an intervening push", ["C04"], ["R4.2"],
        (P, '''                if self.lex.token_if("{"):
                    state = ExternBlockState(state, tok.location, etok.value)''', '''                if self.lex.token_if("{"):
                    state = ExternBlockState(state.parent or state, tok.location, etok.value)''')),
    # ------------------------------------------------------------------ visitor plumbing
    pos("prune: falsy test instead of identity", ["C05"], ["R5.1"],
        (P, '''        if self.visitor.on_namespace_start(state) is False:
            self.visitor = null_visitor''', '''        if not self.visitor.on_namespace_start(state):
            self.visitor = null_visitor''')),
    pos("prune: save after the start callback", ["C04", "C05"], ["R4.2", "R5.2", "R4.v"],
        (P, '''        self._setup_state(state)

        if self.visitor.on_class_start(state) is False:
            self.visitor = null_visitor''', '''        skip = self.visitor.on_class_start(state) is False
        self._setup_state(state)
        if skip:
            self.visitor = null_visitor''')),
    pos("prune: end callback to the restored visitor", ["C05"], ["R5.2"],
        (P, '''        prev_state._finish(self.visitor)
        self.visitor = prev_state._prior_visitor''', '''        self.visitor = prev_state._prior_visitor
        prev_state._finish(self.visitor)''')),
    pos("prune: visitor cached in a local", ["C05"], ["R5.3"],
        (P, '''        self.state.location = ptok.location
        self.visitor.on_pragma(self.state, self._create_value(tokens))''', '''        self.state.location = ptok.location
        v = self.visitor
        v.on_pragma(self.state, self._create_value(tokens))''')),
    pos("prune: NullVisitor member missing", ["C05"], ["R5.4"],
        (V, '''    def on_class_friend(self, state: ClassBlockState, friend: FriendDecl) -> None:
        return None

    def on_class_method(self, state: ClassBlockState, method: Method) -> None:
        return None

    def on_class_end''', '''    def on_class_method(self, state: ClassBlockState, method: Method) -> None:
        return None

    def on_class_end''')),
    # ------------------------------------------------------------------ fold
    pos("fold: payload appended to the wrong list", ["C04"], ["R4.7"],
        (S, "        state.user_data.using_alias.append(using)", "        state.user_data.using.append(using)")),
    pos("fold: payload appended twice", ["C04"], ["R4.7"],
        (S, "        state.user_data.enums.append(enum)", "        state.user_data.enums.append(enum)\n        state.user_data.enums.append(enum)")),
    # ------------------------------------------------------------------ C06
    pos("error rule returns", ["C06"], ["R6.3"],
        (L, '''        msg = "Invalid octal constant"
        self._error(msg, t)''', '''        msg = "Invalid octal constant"
        if len(t.value) > 40:
            self._error(msg, t)''')),
    pos("location stamp dropped in _error", ["C06"], ["R6.2"],
        (L, '''        tok.location = self.current_location()
        raise LexError(msg, tok)''', '''        raise LexError(msg, tok)''')),
    pos("bracket mismatch tolerated", ["C06"], ["R6.4"],
        (P, '''                    if tok.type != ">" and expected != ">":
                        raise self._parse_error(tok, expected)
''', '')),
    pos("validate skipped on a path", ["C06"], ["R6.4"],
        (P, '''        mods.validate(var_ok=False, meth_ok=False, msg="parsing typealias")
''', '''        if template is None:
            mods.validate(var_ok=False, meth_ok=False, msg="parsing typealias")
''')),
    pos("error message loses the file name", ["C06"], ["R6.1m"],
        (P, '''                msg = f"{filename}:{lineno}: parse error evaluating '{tok.value}'{context}"''', '''                msg = f"line {lineno}: parse error evaluating '{tok.value}'{context}"''')),
    # ------------------------------------------------------------------ C07
    pos("regex: decimal escape look-ahead reverted (pycparser #61)", ["C07"], ["R7.1"],
        (L, 'decimal_escape = r"""(\\d+)(?!\\d)"""', 'decimal_escape = r"""(\\d+)"""')),
    pos("regex: hex escape look-ahead reverted", ["C07"], ["R7.1"],
        (L, 'hex_escape = r"""(x[0-9a-fA-F]+)(?![0-9a-fA-F])"""', 'hex_escape = r"""(x[0-9a-fA-F]+)"""')),
    pos("loop: continue before consuming", ["C07"], ["R7.3"],
        (P, '''            if tok.type == start_type:
                level += 1
            elif tok.type == end_type:''', '''            if tok.type == start_type:
                level += 1
                tok = None
            elif tok.type == end_type:''',),
        (P, '''        while True:
            tok = get_token()
            if tok.type == start_type:''', '''        tok = get_token()
        while True:
            if tok is None:
                tok = get_token()
                continue
            if tok.type == "PLACEHOLDER":
                continue
            if tok.type == start_type:''')),
    pos("push-back: group returned twice", ["C07"], ["R7.4"],
        (P, '''            toks = self._consume_balanced_tokens(tok)
            self.lex.return_tokens(toks[1:-1])

        # optional name''', '''            toks = self._consume_balanced_tokens(tok)
            self.lex.return_tokens(toks[1:-1])
            if len(toks) > 64:
                self.lex.return_tokens(toks[1:-1])

        # optional name''')),
    # ------------------------------------------------------------------ C08
    pos("lineno update dropped in multi-line comment", ["C08"], ["R8.3"],
        (L, '''    def t_COMMENT_MULTILINE(self, t: LexToken) -> LexToken:
        t.lexer.lineno += t.value.count("\\n")
        return t''', '''    def t_COMMENT_MULTILINE(self, t: LexToken) -> LexToken:
        return t''')),
    pos("t_NAME moved above prefixed literals", ["C08"], ["R8.6", "R8.8"],
        (L, '''    @TOKEN(wchar_const)
    def t_WCHAR_CONST(self, t: LexToken) -> LexToken:
        return t
''', ''), (L, '''    @TOKEN(r"\\#[\\t ]*pragma")''', '''    @TOKEN(wchar_const)
    def t_WCHAR_CONST(self, t: LexToken) -> LexToken:
        return t

    @TOKEN(r"\\#[\\t ]*pragma")''')),
    pos("integer suffix alternative dropped", ["C08"], ["R8.8"],
        (L, "(([uU]ll)|([uU]LL)|(ll[uU]?)|(LL[uU]?)|([uU][lL])|([lL][uU]?)|[uU])?", "(([uU]ll)|([uU]LL)|(ll[uU]?)|(LL[uU]?)|([lL][uU]?)|[uU])?")),
    pos("digit separator dropped from hex digits", ["C08"], ["R8.8"],
        (L, '''hex_digits = "[0-9a-fA-F']+"''', '''hex_digits = "[0-9a-fA-F]+"''')),
    pos("keyword removed from the set", ["C02"], ["R2.5"],
        (L, '''        "wchar_t",
        "while",''', '''        "while",''')),
    pos("rule swallows text", ["C08"], ["R8.1"],
        (L, '''    def t_PRAGMA_DIRECTIVE(self, t: LexToken) -> LexToken:
        return t''', '''    def t_PRAGMA_DIRECTIVE(self, t: LexToken) -> LexToken:
        if t.value.endswith("region"):
            return None
        return t''')),
    pos("raw token dropped in _fill_tokbuf", ["C08"], ["R8.2"],
        (L, '''                if tok2.type != "NAME" or tok2.value[0] != "_":
                    tok = tok2
                    continue
''', '''                if tok2.type != "NAME":
                    tok = tok2
                    continue
                if tok2.value[0] != "_":
                    tok = get_token()
                    if tok is None:
                        break
                    continue
''')),
    # ------------------------------------------------------------------ C16
    pos("spacing table entry weakened", ["C16"], ["R16.1"],
        (T, '''    "NAME": (2, 2),''', '''    "NAME": (1, 2),''')),
    pos("spacing threshold raised", ["C16"], ["R16.1"],
        (T, "if l + last >= 3 or", "if l + last >= 4 or")),
    pos("separation pair removed", ["C16"], ["R16.1"],
        (T, '''("-", ">"), ''', '')),
    pos("UD types dropped from the table", ["C16"], ["R16.1", "R16.2"],
        (T, '''_want_spacing.update(
    dict.fromkeys(
        (f"UD_{t}" for t in LexerTokenStream._user_defined_literal_start), (2, 2)
    )
)
''', '')),
    # ================================================================== negative controls
    neg("rename a local in _pop_state",
        (P, '''        prev_state = self.state
        state = prev_state.parent
        if state is None:
            raise CxxParseError("INTERNAL ERROR: unbalanced state")

        prev_state._finish(self.visitor)
        self.visitor = prev_state._prior_visitor

        if isinstance(state, NamespaceBlockState):
            self.current_namespace = state.namespace

        self.state = state
        return prev_state''', '''        popped = self.state
        outer = popped.parent
        if outer is None:
            raise CxxParseError("INTERNAL ERROR: unbalanced state")

        popped._finish(self.visitor)
        self.visitor = popped._prior_visitor

        if isinstance(outer, NamespaceBlockState):
            self.current_namespace = outer.namespace

        self.state = outer
        return popped''')),
    neg("assert <-> if-not-raise in _parse_friend_decl",
        (P, '''        if not isinstance(self.state, ClassBlockState):
            raise self._parse_error(tok)

        tok = self.lex.token()
        self._parse_declarations(tok, doxygen, template, is_friend=True)''', '''        if isinstance(self.state, ClassBlockState):
            pass
        else:
            raise self._parse_error(tok)

        tok = self.lex.token()
        self._parse_declarations(tok, doxygen, template, is_friend=True)''')),
    neg("tuple of types -> nested or of isinstance",
        (P, '''            state = self.state
            if not isinstance(state, (NamespaceBlockState, ExternBlockState)):
                raise self._parse_error(tok)

            self._parse_using_directive(state)''', '''            state = self.state
            if not (isinstance(state, NamespaceBlockState) or isinstance(state, ExternBlockState)):
                raise self._parse_error(tok)

            self._parse_using_directive(state)''')),
    neg("early-return form of the prune test",
        (P, '''                    if self.visitor.on_extern_block_start(state) is False:
                        self.visitor = null_visitor
                    return''', '''                    if self.visitor.on_extern_block_start(state) is False:
                        self.visitor = null_visitor
                        return
                    return''')),
    neg("x += 1 -> x = x + 1 in _discard_contents",
        (P, '''            if tok.type == start_type:
                level += 1
            elif tok.type == end_type:
                level -= 1''', '''            if tok.type == start_type:
                level = level + 1
            elif tok.type == end_type:
                level = level - 1''')),
    neg("reorder independent statements in __init__",
        (P, '''        self.visitor = visitor
        self.filename = filename''', '''        self.filename = filename
        self.visitor = visitor''')),
    neg("re-wrap a long call",
        (P, '''            raise self._parse_error(tok, "' or '".join(tokenTypes))''', '''            expected = "' or '".join(tokenTypes)
            raise self._parse_error(tok, expected)''')),
    neg("lexer: reorder two string rules of different length",
        (L, '''    t_DIVIDE = r"/(?!/)"
    t_ELLIPSIS = r"\\.\\.\\."''', '''    t_ELLIPSIS = r"\\.\\.\\."
    t_DIVIDE = r"/(?!/)"''')),
    neg("lexer: newline count via a local",
        (L, '''    def t_COMMENT_SINGLELINE(self, t: LexToken) -> LexToken:
        t.lexer.lineno += t.value.count("\\n")
        return t''', '''    def t_COMMENT_SINGLELINE(self, t: LexToken) -> LexToken:
        lexer = t.lexer
        lexer.lineno += t.value.count("\\n")
        return t''')),
    neg("lexer: UDL test in if/else form",
        (L, '''                if tok2.type != "NAME" or tok2.value[0] != "_":
                    tok = tok2
                    continue

                tok.value = tok.value + tok2.value
                tok.type = f"UD_{tok.type}"
''', '''                if tok2.type == "NAME" and tok2.value[0] == "_":
                    tok.value = tok.value + tok2.value
                    tok.type = f"UD_{tok.type}"
                else:
                    tok = tok2
                    continue
''')),
    neg("tokfmt: table row order and an explicit default",
        (T, '''    ",": (0, 3),
    "*": (1, 2),''', '''    "*": (1, 2),
    ",": (0, 3),''')),
    neg("simple: payload appended through a local",
        (S, '''        state.user_data.functions.append(fn)''', '''        scope = state.user_data
        scope.functions.append(fn)''')),
]
