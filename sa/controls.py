"""Positive and negative controls for the control run (sa/selftest.py).

Each edit is (file relative to cxxheaderparser/, old text, new text); the old
text must occur exactly once.  Positive controls name the property to run and
the rule-id prefixes of which at least one must fire.  Negative controls are
behaviour-preserving rewrites: every property must stay silent."""

P = "parser.py"
L = "lexer.py"
T = "tokfmt.py"
TY = "types.py"
S = "simple.py"
V = "visitor.py"
PS = "parserstate.py"
PP = "preprocessor.py"


def pos(name, props, expect, *edits):
    return {"name": name, "kind": "positive", "props": props, "expect": expect, "edits": list(edits)}


def neg(name, *edits):
    return {"name": name, "kind": "negative", "edits": list(edits)}


CONTROLS = [
    # ------------------------------------------------------------------ KIND
    pos("kind: namespace guard deleted", ["C04", "C06"], ["R4.6", "R6.4"],
        (P, '''        state = self.state
        if not isinstance(state, (NamespaceBlockState, ExternBlockState)):
            raise CxxParseError("namespace cannot be defined in a class")

        if ns_alias:''', '''        state = self.state

        if ns_alias:''')),
    pos("kind: concept guard deleted", ["C04", "C06"], ["R4.6", "R6.4"],
        (P, '''        if isinstance(state, ClassBlockState):
            raise CxxParseError("concept cannot be defined in a class")
''', '')),
    pos("kind: access specifier guard deleted", ["C06"], ["R6.4"],
        (P, '''        state = self.state
        if not isinstance(state, ClassBlockState):
            raise self._parse_error(tok)

        state._set_access(tok.value)''', '''        state = self.state

        state._set_access(tok.value)''')),
    pos("kind: friend guard deleted", ["C06"], ["R6.4"],
        (P, '''        if not isinstance(self.state, ClassBlockState):
            raise self._parse_error(tok)

        tok = self.lex.token()
        self._parse_declarations(tok, doxygen, template, is_friend=True)''', '''        tok = self.lex.token()
        self._parse_declarations(tok, doxygen, template, is_friend=True)''')),
    pos("kind: extern-in-class guard deleted", ["C04", "C06"], ["R4.6", "R6.4"],
        (P, '''            if isinstance(state, ClassBlockState):
                raise self._parse_error(tok)

            if etok.type == "STRING_LITERAL":''', '''            if etok.type == "STRING_LITERAL":''')),
    pos("kind: using-directive guard deleted", ["C04", "C06"], ["R4.6", "R6.4"],
        (P, '''            if not isinstance(state, (NamespaceBlockState, ExternBlockState)):
                raise self._parse_error(tok)

            self._parse_using_directive(state)''', '''            self._parse_using_directive(state)''')),
    # ------------------------------------------------------------------ typestate / who-may-call
    pos("typestate: end callback issued directly", ["C04"], ["R4.3"],
        (P, '''        old_state = self._pop_state()
        if isinstance(old_state, ClassBlockState):''', '''        old_state = self._pop_state()
        self.visitor.on_namespace_end(old_state)
        if isinstance(old_state, ClassBlockState):''')),
    pos("typestate: stale state alias across a push", ["C04"], ["R4.5"],
        (P, '''        if self.visitor.on_class_start(state) is False:
            self.visitor = null_visitor''', '''        outer = self.state
        if self.visitor.on_class_start(state) is False:
            self.visitor = null_visitor''',),
        (P, '''        state: ClassBlockState = ClassBlockState(
            self.state, location, clsdecl, default_access, typedef, mods
        )
        self._setup_state(state)
''', '''        state: ClassBlockState = ClassBlockState(
            self.state, location, clsdecl, default_access, typedef, mods
        )
        before = self.state
        self._setup_state(state)
        self.visitor.on_pragma(before, self._create_value([]))
''')),
    pos("own: extra writer of self.state", ["C04"], ["R4.4"],
        (P, '''    def _on_block_end(self, tok: LexToken, doxygen: typing.Optional[str]) -> None:
        old_state = self._pop_state()''', '''    def _on_block_end(self, tok: LexToken, doxygen: typing.Optional[str]) -> None:
        old_state = self._pop_state()
        if old_state.parent is not None:
            self.state = old_state.parent''')),
    pos("exception: narrowed catch-all", ["C04", "C06"], ["R4.8", "R6.1"],
        (P, "        except Exception as e:\n            if self.verbose:", "        except CxxParseError as e:\n            if self.verbose:")),
    pos("exception: cause dropped", ["C04", "C06"], ["R4.8", "R6.1"],
        (P, "            raise CxxParseError(msg) from e", "            raise CxxParseError(msg)")),
    pos("exception: swallowing handler around emitting code", ["C04"], ["R4.8"],
        (P, '''                else:
                    # this processes ambiguous declarations
                    self._parse_declarations(tok, doxygen)
                    doxygen = None''', '''                else:
                    # this processes ambiguous declarations
                    try:
                        self._parse_declarations(tok, doxygen)
                    except EOFError:
                        pass
                    doxygen = None''')),
    pos("start: parent read before an intervening push", ["C04"], ["R4.2"],
        (P, '''                if self.lex.token_if("{"):
                    state = ExternBlockState(state, tok.location, etok.value)''', '''                if self.lex.token_if("{"):
                    state = ExternBlockState(state.parent or state, tok.location, etok.value)''')),
    # ------------------------------------------------------------------ visitor plumbing
    pos("prune: falsy test instead of identity", ["C05"], ["R5.1"],
        (P, '''        if self.visitor.on_namespace_start(state) is False:
            self.visitor = null_visitor''', '''        if not self.visitor.on_namespace_start(state):
            self.visitor = null_visitor''')),
    pos("prune: save after the start callback", ["C04", "C05"], ["R4.2", "R5.2", "R4.v"],
        (P, '''        self._setup_state(state)

        if self.visitor.on_class_start(state) is False:
            self.visitor = null_visitor''', '''        skip = self.visitor.on_class_start(state) is False
        self._setup_state(state)
        if skip:
            self.visitor = null_visitor''')),
    pos("prune: end callback to the restored visitor", ["C05"], ["R5.2"],
        (P, '''        prev_state._finish(self.visitor)
        self.visitor = prev_state._prior_visitor''', '''        self.visitor = prev_state._prior_visitor
        prev_state._finish(self.visitor)''')),
    pos("prune: visitor callback bound once in the constructor", ["C05"], ["R5.3"],
        (P, '''        self.state.location = ptok.location
        self.visitor.on_pragma(self.state, self._create_value(tokens))''', '''        self.state.location = ptok.location
        self._on_pragma(self.state, self._create_value(tokens))'''),
        (P, '''        self.visitor.on_parse_start(self.state)''', '''        self._on_pragma = self.visitor.on_pragma
        self.visitor.on_parse_start(self.state)''')),
    neg("visitor read into a local right before its call",
        (P, '''        self.state.location = ptok.location
        self.visitor.on_pragma(self.state, self._create_value(tokens))''', '''        self.state.location = ptok.location
        v = self.visitor
        v.on_pragma(self.state, self._create_value(tokens))''')),
    pos("prune: NullVisitor member missing", ["C05"], ["R5.4"],
        (V, '''    def on_class_friend(self, state: ClassBlockState, friend: FriendDecl) -> None:
        return None

    def on_class_method(self, state: ClassBlockState, method: Method) -> None:
        return None

    def on_class_end''', '''    def on_class_method(self, state: ClassBlockState, method: Method) -> None:
        return None

    def on_class_end''')),
    # ------------------------------------------------------------------ fold
    pos("fold: payload appended to the wrong list", ["C04"], ["R4.7"],
        (S, "        state.user_data.using_alias.append(using)", "        state.user_data.using.append(using)")),
    pos("fold: payload appended twice", ["C04"], ["R4.7"],
        (S, "        state.user_data.enums.append(enum)", "        state.user_data.enums.append(enum)\n        state.user_data.enums.append(enum)")),
    # ------------------------------------------------------------------ C06
    pos("error rule returns", ["C06"], ["R6.3"],
        (L, '''        msg = "Invalid octal constant"
        self._error(msg, t)''', '''        msg = "Invalid octal constant"
        if len(t.value) > 40:
            self._error(msg, t)''')),
    pos("location stamp dropped in _error", ["C06"], ["R6.2"],
        (L, '''        tok.location = self.current_location()
        raise LexError(msg, tok)''', '''        raise LexError(msg, tok)''')),
    pos("_error logs and returns", ["C06"], ["R6.2", "R6.3"],
        (L, """        tok.location = self.current_location()
        raise LexError(msg, tok)""", """        tok.location = self.current_location()
        self.errors = getattr(self, "errors", []) + [LexError(msg, tok)]""")),
    pos("error built in a rule without the stamp", ["C06"], ["R6.2"],
        (L, """        msg = "Invalid octal constant"
        self._error(msg, t)""", """        msg = "Invalid octal constant"
        raise LexError(msg, t)""")),
    neg("error stamped and raised in the rule itself",
        (L, """        msg = "Invalid octal constant"
        self._error(msg, t)""", """        msg = "Invalid octal constant"
        t.location = self.current_location()
        raise LexError(msg, t)""")),
    pos("bracket mismatch tolerated", ["C06"], ["R6.4"],
        (P, '''                    if tok.type != ">" and expected != ">":
                        raise self._parse_error(tok, expected)
''', '')),
    pos("validate skipped on a path", ["C06"], ["R6.4"],
        (P, '''        mods.validate(var_ok=False, meth_ok=False, msg="parsing typealias")
''', '''        if template is None:
            mods.validate(var_ok=False, meth_ok=False, msg="parsing typealias")
''')),
    pos("error message loses the file name", ["C06"], ["R6.1m"],
        (P, '''                msg = f"{filename}:{lineno}: parse error evaluating '{tok.value}'{context}"''', '''                msg = f"line {lineno}: parse error evaluating '{tok.value}'{context}"''')),
    # ------------------------------------------------------------------ C07
    pos("regex: decimal escape look-ahead reverted (pycparser #61)", ["C07"], ["R7.1"],
        (L, 'decimal_escape = r"""(\\d+)(?!\\d)"""', 'decimal_escape = r"""(\\d+)"""')),
    pos("regex: hex escape look-ahead reverted", ["C07"], ["R7.1"],
        (L, 'hex_escape = r"""(x[0-9a-fA-F]+)(?![0-9a-fA-F])"""', 'hex_escape = r"""(x[0-9a-fA-F]+)"""')),
    pos("loop: continue before consuming", ["C07"], ["R7.3"],
        (P, '''            if tok.type == start_type:
                level += 1
            elif tok.type == end_type:''', '''            if tok.type == start_type:
                level += 1
                tok = None
            elif tok.type == end_type:''',),
        (P, '''        while True:
            tok = get_token()
            if tok.type == start_type:''', '''        tok = get_token()
        while True:
            if tok is None:
                tok = get_token()
                continue
            if tok.type == "PLACEHOLDER":
                continue
            if tok.type == start_type:''')),
    pos("push-back: group returned twice", ["C07"], ["R7.4"],
        (P, '''            toks = self._consume_balanced_tokens(tok)
            self.lex.return_tokens(toks[1:-1])

        # optional name''', '''            toks = self._consume_balanced_tokens(tok)
            self.lex.return_tokens(toks[1:-1])
            if len(toks) > 64:
                self.lex.return_tokens(toks[1:-1])

        # optional name''')),
    # ------------------------------------------------------------------ C08
    pos("lineno update dropped in multi-line comment", ["C08"], ["R8.3"],
        (L, '''    def t_COMMENT_MULTILINE(self, t: LexToken) -> LexToken:
        t.lexer.lineno += t.value.count("\\n")
        return t''', '''    def t_COMMENT_MULTILINE(self, t: LexToken) -> LexToken:
        return t''')),
    pos("t_NAME moved above prefixed literals", ["C08"], ["R8.6", "R8.8"],
        (L, '''    @TOKEN(wchar_const)
    def t_WCHAR_CONST(self, t: LexToken) -> LexToken:
        return t
''', ''), (L, '''    @TOKEN(r"\\#[\\t ]*pragma")''', '''    @TOKEN(wchar_const)
    def t_WCHAR_CONST(self, t: LexToken) -> LexToken:
        return t

    @TOKEN(r"\\#[\\t ]*pragma")''')),
    pos("integer suffix alternative dropped", ["C08"], ["R8.8"],
        (L, "(([uU]ll)|([uU]LL)|(ll[uU]?)|(LL[uU]?)|([uU][lL])|([lL][uU]?)|[uU])?", "(([uU]ll)|([uU]LL)|(ll[uU]?)|(LL[uU]?)|([lL][uU]?)|[uU])?")),
    pos("digit separator dropped from hex digits", ["C08"], ["R8.8"],
        (L, '''hex_digits = "[0-9a-fA-F']+"''', '''hex_digits = "[0-9a-fA-F]+"''')),
    pos("keyword removed from the set", ["C01"], ["R1.8"],
        (L, '''        "wchar_t",
        "while",''', '''        "while",''')),
    pos("rule swallows text", ["C08"], ["R8.1"],
        (L, '''    def t_PRAGMA_DIRECTIVE(self, t: LexToken) -> LexToken:
        return t''', '''    def t_PRAGMA_DIRECTIVE(self, t: LexToken) -> LexToken:
        if t.value.endswith("region"):
            return None
        return t''')),
    pos("raw token dropped in _fill_tokbuf", ["C08"], ["R8.2"],
        (L, '''                if tok2.type != "NAME" or tok2.value[0] != "_":
                    tok = tok2
                    continue
''', '''                if tok2.type != "NAME":
                    tok = tok2
                    continue
                if tok2.value[0] != "_":
                    tok = get_token()
                    if tok is None:
                        break
                    continue
''')),
    # ------------------------------------------------------------------ C16
    pos("spacing table entry weakened", ["C16"], ["R16.1"],
        (T, '''    "NAME": (2, 2),''', '''    "NAME": (1, 2),''')),
    pos("spacing threshold raised", ["C16"], ["R16.1"],
        (T, "if l + last >= 3 or", "if l + last >= 4 or")),
    pos("separation pair removed", ["C16"], ["R16.1"],
        (T, '''("-", ">"), ''', '')),
    pos("UD types dropped from the table", ["C16"], ["R16.1", "R16.2"],
        (T, '''_want_spacing.update(
    dict.fromkeys(
        (f"UD_{t}" for t in LexerTokenStream._user_defined_literal_start), (2, 2)
    )
)
''', '')),
    # ================================================================== negative controls
    neg("rename a local in _pop_state",
        (P, '''        prev_state = self.state
        state = prev_state.parent
        if state is None:
            raise CxxParseError("INTERNAL ERROR: unbalanced state")

        prev_state._finish(self.visitor)
        self.visitor = prev_state._prior_visitor

        if isinstance(state, NamespaceBlockState):
            self.current_namespace = state.namespace

        self.state = state
        return prev_state''', '''        popped = self.state
        outer = popped.parent
        if outer is None:
            raise CxxParseError("INTERNAL ERROR: unbalanced state")

        popped._finish(self.visitor)
        self.visitor = popped._prior_visitor

        if isinstance(outer, NamespaceBlockState):
            self.current_namespace = outer.namespace

        self.state = outer
        return popped''')),
    neg("assert <-> if-not-raise in _parse_friend_decl",
        (P, '''        if not isinstance(self.state, ClassBlockState):
            raise self._parse_error(tok)

        tok = self.lex.token()
        self._parse_declarations(tok, doxygen, template, is_friend=True)''', '''        if isinstance(self.state, ClassBlockState):
            pass
        else:
            raise self._parse_error(tok)

        tok = self.lex.token()
        self._parse_declarations(tok, doxygen, template, is_friend=True)''')),
    neg("tuple of types -> nested or of isinstance",
        (P, '''            state = self.state
            if not isinstance(state, (NamespaceBlockState, ExternBlockState)):
                raise self._parse_error(tok)

            self._parse_using_directive(state)''', '''            state = self.state
            if not (isinstance(state, NamespaceBlockState) or isinstance(state, ExternBlockState)):
                raise self._parse_error(tok)

            self._parse_using_directive(state)''')),
    neg("early-return form of the prune test",
        (P, '''                    if self.visitor.on_extern_block_start(state) is False:
                        self.visitor = null_visitor
                    return''', '''                    if self.visitor.on_extern_block_start(state) is False:
                        self.visitor = null_visitor
                        return
                    return''')),
    neg("x += 1 -> x = x + 1 in _discard_contents",
        (P, '''            if tok.type == start_type:
                level += 1
            elif tok.type == end_type:
                level -= 1''', '''            if tok.type == start_type:
                level = level + 1
            elif tok.type == end_type:
                level = level - 1''')),
    neg("reorder independent statements in __init__",
        (P, '''        self.visitor = visitor
        self.filename = filename''', '''        self.filename = filename
        self.visitor = visitor''')),
    neg("re-wrap a long call",
        (P, '''            raise self._parse_error(tok, "' or '".join(tokenTypes))''', '''            expected = "' or '".join(tokenTypes)
            raise self._parse_error(tok, expected)''')),
    neg("lexer: reorder two string rules of different length",
        (L, '''    t_DIVIDE = r"/(?!/)"
    t_ELLIPSIS = r"\\.\\.\\."''', '''    t_ELLIPSIS = r"\\.\\.\\."
    t_DIVIDE = r"/(?!/)"''')),
    neg("lexer: newline count via a local",
        (L, '''    def t_COMMENT_SINGLELINE(self, t: LexToken) -> LexToken:
        t.lexer.lineno += t.value.count("\\n")
        return t''', '''    def t_COMMENT_SINGLELINE(self, t: LexToken) -> LexToken:
        lexer = t.lexer
        lexer.lineno += t.value.count("\\n")
        return t''')),
    neg("lexer: UDL test in if/else form",
        (L, '''                if tok2.type != "NAME" or tok2.value[0] != "_":
                    tok = tok2
                    continue

                tok.value = tok.value + tok2.value
                tok.type = f"UD_{tok.type}"
''', '''                if tok2.type == "NAME" and tok2.value[0] == "_":
                    tok.value = tok.value + tok2.value
                    tok.type = f"UD_{tok.type}"
                else:
                    tok = tok2
                    continue
''')),
    neg("tokfmt: table row order and an explicit default",
        (T, '''    ",": (0, 3),
    "*": (1, 2),''', '''    "*": (1, 2),
    ",": (0, 3),''')),
    neg("simple: payload appended through a local",
        (S, '''        state.user_data.functions.append(fn)''', '''        scope = state.user_data
        scope.functions.append(fn)''')),
]


# ---------------------------------------------------------------------------------------------
# second batch: controls for C01-C03 and C09-C20

CONTROLS += [
    # ------------------------------------------------------------------ C01
    pos("fold/emit: callback given the wrong payload class", ["C01"], ["R1.3"],
        (P, '''            typedef = Typedef(dtype, name, self._current_access)
            self.visitor.on_typedef(state, typedef)''', '''            typedef = UsingAlias(name, dtype, None, self._current_access)
            self.visitor.on_typedef(state, typedef)''')),
    pos("vocab: handler dropped from the dispatch table", ["C01"], ["R1.1"],
        (P, '''            "static_assert": self._consume_static_assert,
''', '')),
    pos("vocab: token type misspelt", ["C01"], ["R1.8"],
        (P, '''        tok = self.lex.token_if("&", "DBL_AMP")''', '''        tok = self.lex.token_if("&", "DBL_AND")''')),
    pos("conformance: keyword added to _type_kwd_both that the dataclasses lack", ["C01"], ["R1.5"],
        (P, '''    _type_kwd_both = {"const", "constexpr", "extern", "inline", "static"}''', '''    _type_kwd_both = {"const", "constexpr", "extern", "inline", "static", "register"}''')),
    pos("param_idx counts the wrong list", ["C01"], ["R1.6"],
        (P, "                        param_idx=len(params) - 1,", "                        param_idx=len(at_params),")),
    # ------------------------------------------------------------------ C02
    neg("swap: rebinding as the last statement before the try",
        (P, '''                old_lex = self.lex
                try:
                    # set up a temporary token stream with the tokens we need to parse
                    tmp_lex = lexer.BoundedTokenStream(raw_toks)
                    self.lex = tmp_lex
''', '''                old_lex = self.lex
                tmp_lex = lexer.BoundedTokenStream(raw_toks)
                self.lex = tmp_lex
                try:
''')),
    pos("swap: rebinding moved above the try with a parser call in between", ["C02"], ["R2.1", "R2.2"],
        (P, '''                old_lex = self.lex
                try:
                    # set up a temporary token stream with the tokens we need to parse
                    tmp_lex = lexer.BoundedTokenStream(raw_toks)
                    self.lex = tmp_lex

                    try:
                        parsed_type, mods = self._parse_type(None)
''', '''                old_lex = self.lex
                tmp_lex = lexer.BoundedTokenStream(raw_toks)
                self.lex = tmp_lex
                parsed_type, mods = self._parse_type(None)
                try:
                    try:
''')),
    pos("types: pointer-to-reference guard deleted", ["C02"], ["R2.3"],
        (P, '''                if isinstance(dtype, (Reference, MoveReference)):
                    raise self._parse_error(tok)
                dtype = Pointer(dtype)''', '''                dtype = Pointer(dtype)''')),
    pos("types: array-of-references guard deleted", ["C02"], ["R2.3"],
        (P, '''        if isinstance(dtype, (Reference, MoveReference)):
            raise CxxParseError("arrays of references are illegal", tok)
''', '')),
    pos("flags: has_trailing_return dropped at one sibling site", ["C02"], ["R2.4"],
        (P, '''                return_type = self._parse_trailing_return_type(method.return_type)
                method.has_trailing_return = True
                method.return_type = return_type''', '''                return_type = self._parse_trailing_return_type(method.return_type)
                method.return_type = return_type''')),
    pos("keyword removed from the lexer set", ["C01"], ["R1.8"],
        (L, '''        "wchar_t",
        "while",''', '''        "while",''')),
    pos("fundamental type dropped from the parser table", ["C02"], ["R2.5"],
        (P, '''        "nullptr_t",
        "wchar_t",
        "void",''', '''        "nullptr_t",
        "void",''')),
    pos("trial parse: whole-argument condition dropped", ["C02"], ["R2.2"],
        (P, '''                    else:
                        if tmp_lex.has_tokens():
                            dtype = None
''', '')),
    # ------------------------------------------------------------------ C03
    pos("access: default swapped", ["C03"], ["R3.1"],
        (P, '''default_access = "private" if typename.classkey == "class" else "public"''', '''default_access = "public" if typename.classkey == "class" else "private"''')),
    pos("access: union treated like class", ["C03"], ["R3.1"],
        (P, '''default_access = "private" if typename.classkey == "class" else "public"''', '''default_access = "public" if typename.classkey == "struct" else "private"''')),
    pos("access: ClassDecl built after the push", ["C03"], ["R3.3"],
        (P, '''        clsdecl = ClassDecl(
            typename, bases, template, explicit, final, doxygen, self._current_access
        )
        state: ClassBlockState = ClassBlockState(
            self.state, location, clsdecl, default_access, typedef, mods
        )
        self._setup_state(state)
''', '''        clsdecl = ClassDecl(typename, bases, template, explicit, final, doxygen)
        state: ClassBlockState = ClassBlockState(
            self.state, location, clsdecl, default_access, typedef, mods
        )
        self._setup_state(state)
        clsdecl.access = self._current_access
''')),
    pos("access: one member kind left at its default", ["C03"], ["R3.3"],
        (P, '''        decl = UsingDecl(typename, self._current_access, doxygen)''', '''        decl = UsingDecl(typename, doxygen=doxygen)''')),
    pos("qualifier stored in the wrong field", ["C03"], ["R3.5"],
        (P, '''                elif tok_value == "delete":
                    method.deleted = True
                elif tok_value == "default":
                    method.default = True''', '''                elif tok_value == "delete":
                    method.default = True
                elif tok_value == "default":
                    method.deleted = True''')),
    pos("anonymous id not incremented by one", ["C03"], ["R3.6"],
        (P, "                self.anon_id += 1", "                self.anon_id += 2")),
    # ------------------------------------------------------------------ C09
    pos("discard set loses a member", ["C09"], ["R9.2"],
        (L, '''    _discard_types = {
        "NEWLINE",
        "COMMENT_SINGLELINE",
        "COMMENT_MULTILINE",
        "WHITESPACE",
    }''', '''    _discard_types = {
        "NEWLINE",
        "COMMENT_SINGLELINE",
        "WHITESPACE",
    }''')),
    pos("raw buffer peeked from the parser", ["C09"], ["R9.1"],
        (P, '''        if self.lex.token_if("ARROW"):
            return_type = self._parse_trailing_return_type(fn.return_type)''', '''        if self.lex.tokbuf and self.lex.tokbuf[0].type == "ARROW":
            self.lex.tokbuf.popleft()
            return_type = self._parse_trailing_return_type(fn.return_type)''')),
    pos("accessor forgets to filter", ["C09"], ["R9.2"],
        (L, '''    def token_if_val(self, *vals: str) -> typing.Optional[LexToken]:
        tok = self.token_eof_ok()
        if tok is None:
            return None''', '''    def token_if_val(self, *vals: str) -> typing.Optional[LexToken]:
        tok = self.tokbuf.popleft() if self.tokbuf else self.token_eof_ok()
        if tok is None:
            return None''')),
    pos("splice guard off by one again", ["C09"], ["R9.6"],
        (L, '''if len(tokbuf) >= 2 and tokbuf[-2].type == "\\\\":''', '''if len(tokbuf) > 2 and tokbuf[-2].type == "\\\\":''')),
    pos("CRLF normalisation removed", ["C09"], ["R9.5"],
        (L, '''self._lex.input(content.replace("\\r\\n", "\\n"))''', '''self._lex.input(content)''')),
    pos("pragma scanner ignores comment line ends", ["C09"], ["R9.3"],
        (L, '''                if tok.value.endswith("\\n"):
                    return tok
''', '')),
    # ------------------------------------------------------------------ C10
    pos("location store deleted in _parse_field", ["C10"], ["R10.4"],
        (P, '''        state = self.state
        state.location = location
        if isinstance(state, ClassBlockState):
            is_class_block = True''', '''        state = self.state
        if isinstance(state, ClassBlockState):
            is_class_block = True''')),
    pos("#line offset off by one", ["C10"], ["R10.3"],
        (L, "self.line_offset = 1 + self.lex.lineno - int(m.group(2))", "self.line_offset = self.lex.lineno - int(m.group(2))")),
    pos("#line takes the wrong group for the file", ["C10"], ["R10.3"],
        (L, "self.filename = m.group(3)", "self.filename = m.group(1)")),
    pos("current_location forgets the offset", ["C10"], ["R10.2"],
        (L, "return Location(self.filename, self.lex.lineno - self.line_offset)", "return Location(self.filename, self.lex.lineno)")),
    # ------------------------------------------------------------------ C11
    pos("doxygen = None deleted in the declarator loop", ["C11"], ["R11.1"],
        (P, '''            # Unset the doxygen, location
            doxygen = None
''', '''            # Unset the location
''')),
    pos("access specifier keeps the pending doc text", ["C11"], ["R11.2"],
        (P, '''_keep_doxygen = {"__declspec", "alignas", "__attribute__", "DBL_LBRACKET"}''', '''_keep_doxygen = {"__declspec", "alignas", "__attribute__", "DBL_LBRACKET", "public"}''')),
    pos("pending doc text not reset after an ambiguous declaration", ["C11"], ["R11.2"],
        (P, """                    self._parse_declarations(tok, doxygen)
                    doxygen = None
""", """                    self._parse_declarations(tok, doxygen)
""")),
    pos("kept set compared against the dispatch table: everything with a handler keeps the doc text", ["C11"], ["R11.2"],
        (P, """                    if tok.type not in _keep_doxygen:
                        doxygen = None""", """                    if tok.type not in _translation_unit_tokens:
                        doxygen = None""")),
    neg("handler looked up with the declarations parser as default, one reset test for both",
        (P, """                fn = _translation_unit_tokens.get(tok.type)
                if fn:
                    fn(tok, doxygen)

                    if tok.type not in _keep_doxygen:
                        doxygen = None
                else:
                    # this processes ambiguous declarations
                    self._parse_declarations(tok, doxygen)
                    doxygen = None
""", """                fn = _translation_unit_tokens.get(tok.type, self._parse_declarations)
                fn(tok, doxygen)
                if tok.type not in _keep_doxygen:
                    doxygen = None
""")),
    neg("kept set spelled as the attribute-introducer class constant",
        (P, """_keep_doxygen = {"__declspec", "alignas", "__attribute__", "DBL_LBRACKET"}""", """_keep_doxygen = self._attribute_start_tokens""")),
    pos("trailing form used unguarded", ["C11"], ["R11.3"],
        (P, '''        if doxygen is None:
            # try checking after the var
            doxygen = self.lex.get_doxygen_after()''', '''        trailing = self.lex.get_doxygen_after()
        if doxygen is None:
            doxygen = trailing''')),
    pos("doc text handed to two constructions", ["C11"], ["R11.1"],
        (P, '''        ns = NamespaceDecl(names, inline, doxygen)
''', '''        ns = NamespaceDecl(names, inline, doxygen)
        if ns_alias is None:
            self.visitor.on_template_inst(state, TemplateInst(PQName([]), False, doxygen))
''')),
    pos("doc prefixes widened", ["C11"], ["R11.4"],
        (L, '''if text.startswith("///") or text.startswith("//!"):''', '''if text.startswith("//"):''')),
    pos("accumulator rebound for block comments again", ["C11"], ["R11.4"],
        (L, "comment_lines.extend(text.splitlines())", "comment_lines = text.splitlines()")),
    # ------------------------------------------------------------------ C12
    pos("template header parked on the parser", ["C12"], ["R12.1"],
        (P, '''        template = self._parse_template_decl()

        # Check for multiple specializations''', '''        template = self._parse_template_decl()
        self._last_template = template

        # Check for multiple specializations''')),
    pos("re-opened namespace gets a fresh scope", ["C12", "C01"], ["R12.4", "R1.7"],
        (S, '''            ns = parent_ns.namespaces.get(name)
            if ns is None:
                ns = NamespaceScope(name)
                parent_ns.namespaces[name] = ns''', '''            ns = NamespaceScope(name)
            parent_ns.namespaces[name] = ns''')),
    neg("namespace lookup by setdefault with an eagerly built scope",
        (S, '''            ns = parent_ns.namespaces.get(name)
            if ns is None:
                ns = NamespaceScope(name)
                parent_ns.namespaces[name] = ns''', '''            ns = parent_ns.namespaces.setdefault(name, NamespaceScope(name))''')),
    neg("namespace lookup by subscript and KeyError",
        (S, '''            ns = parent_ns.namespaces.get(name)
            if ns is None:
                ns = NamespaceScope(name)
                parent_ns.namespaces[name] = ns''', '''            try:
                ns = parent_ns.namespaces[name]
            except KeyError:
                ns = parent_ns.namespaces[name] = NamespaceScope(name)''')),
    pos("new namespace scope filed under the full dotted name", ["C12"], ["R12.4"],
        (S, '''            ns = parent_ns.namespaces.get(name)
            if ns is None:
                ns = NamespaceScope(name)
                parent_ns.namespaces[name] = ns''', '''            ns = parent_ns.namespaces.get(name)
            if ns is None:
                ns = NamespaceScope(name)
                parent_ns.namespaces["::".join(names)] = ns''')),
    pos("namespace lookup starts at the global scope", ["C12"], ["R12.4"],
        (S, '''        parent_ns = state.parent.user_data

        ns = None''', '''        parent_ns = self.data.namespace

        ns = None''')),
    pos("block bound to the outermost component", ["C12"], ["R12.4"],
        (S, '''            ns = parent_ns.namespaces.get(name)
            if ns is None:
                ns = NamespaceScope(name)
                parent_ns.namespaces[name] = ns''', '''            ns = parent_ns.namespaces.get(name)
            if ns is None:
                ns = NamespaceScope(name)
                parent_ns.namespaces[name] = ns
            if name is names[0]:
                state.user_data = ns'''), (S, '''        state.user_data = ns
        return None''', '''        return None''')),
    pos("module-level counter", ["C12", "C15"], ["R12.6", "R15.1"],
        (P, '''LexTokenList = typing.List[LexToken]''', '''LexTokenList = typing.List[LexToken]
_anon = [0]'''), (P, '''                self.anon_id += 1
                segments.append(AnonymousName(self.anon_id))''', '''                _anon[0] += 1
                self.anon_id += 1
                segments.append(AnonymousName(_anon[0]))''')),
    # ------------------------------------------------------------------ C13
    pos("counting loop starts at 0", ["C13"], ["R13.2"],
        (P, '''        level = 1
        get_token = self.lex.token''', '''        level = 0
        get_token = self.lex.token''')),
    pos("discard pair mismatched", ["C13"], ["R13.1"],
        (P, '''        self._next_token_must_be("(")
        self._discard_contents("(", ")")''', '''        self._next_token_must_be("(")
        self._discard_contents("{", ")")''')),
    pos("attribute consumer passes one opener only", ["C13"], ["R13.3"],
        (P, "        self._consume_balanced_tokens(tok1, tok2)", "        self._consume_balanced_tokens(tok1)")),
    pos("opener no longer pushes its closer", ["C13", "C14"], ["R13.4", "R14"],
        (P, '''            next_end = token_map.get(tok.type)
            if next_end:
                match_stack.append(next_end)''', '''            next_end = token_map.get(tok.type)
            if next_end and next_end != ">":
                match_stack.append(next_end)''')),
    # ------------------------------------------------------------------ C14
    pos("collector drops a token", ["C14"], ["R14.1"],
        (P, '''            if tok.type in self._balanced_token_map:
                rtoks.extend(self._consume_balanced_tokens(tok))
            else:
                rtoks.append(tok)

        return rtoks''', '''            if tok.type in self._balanced_token_map:
                rtoks.extend(self._consume_balanced_tokens(tok))
            elif tok.type != "WHITESPACE":
                if tok.value != "typename":
                    rtoks.append(tok)

        return rtoks''')),
    pos("decltype keeps its parentheses", ["C14"], ["R14.2"],
        (P, "        toks = self._consume_balanced_tokens(tok)[1:-1]\n        return DecltypeSpecifier(", "        toks = self._consume_balanced_tokens(tok)\n        return DecltypeSpecifier(")),
    pos("brace initialiser loses its braces", ["C14"], ["R14.2"],
        (P, "                default = self._create_value(self._consume_balanced_tokens(tok))", "                default = self._create_value(self._consume_balanced_tokens(tok)[1:-1])")),
    pos("enumerator terminators changed", ["C14"], ["R14.3"],
        (P, '''value = self._create_value(self._consume_value_until([], ",", "}"))''', '''value = self._create_value(self._consume_value_until([], ",", ";"))''')),
    pos("_create_value filters tokens", ["C14"], ["R14.4"],
        (P, "        return Value([Token(tok.value, tok.type) for tok in toks])", "        return Value([Token(tok.value, tok.type) for tok in toks if tok.type != \"typename\"])")),
    # ------------------------------------------------------------------ C15
    pos("clone dropped in PlyLexer.__new__", ["C15"], ["R15.2"],
        (L, '''        inst.lex = cls._lexer.clone(inst)
        inst.lex.begin("INITIAL")''', '''        inst.lex = cls._lexer
        inst.lex.begin("INITIAL")''')),
    pos("placeholder token mutated", ["C15"], ["R15.5", "R15.1"],
        (P, '''                raw_toks.append(PhonyEnding)
''', '''                PhonyEnding.location = raw_toks[0].location
                raw_toks.append(PhonyEnding)
''')),
    # ------------------------------------------------------------------ C17
    pos("pointer grouping branch deleted", ["C17"], ["R17.2"],
        (TY, '''        ptr_to = self.ptr_to
        if isinstance(ptr_to, (Array, FunctionType)):
            return ptr_to.format_decl(f"(*{c}{v})")
        elif _wraps_declarator(ptr_to):
            return ptr_to.format_decl(f"*{c}{v}")
        else:
            return f"{ptr_to.format()}*{c}{v}"''', '''        ptr_to = self.ptr_to
        return f"{ptr_to.format()}*{c}{v}"''')),
    pos("volatile dropped from Type.format", ["C17"], ["R17.1"],
        (TY, '''        return f"{c}{v}{self.typename.format()}"

    def format_decl(self, name: str):''', '''        return f"{c}{self.typename.format()}"

    def format_decl(self, name: str):''')),
    pos("array appends its own dimension after the element again", ["C17"], ["R17.3"],
        (TY, '''        return self.array_of.format_decl(f"{name}[{s}]")''', '''        return f"{self.array_of.format()} {name}[{s}]"''')),
    # ------------------------------------------------------------------ C18
    pos("option consulted at a second site", ["C18"], ["R18.1"],
        (P, '''        param = cls(type=dtype, name=param_name, default=default, param_pack=param_pack)''', '''        if not self.options.convert_void_to_zero_params and param_name == "void":
            param_name = None
        param = cls(type=dtype, name=param_name, default=default, param_pack=param_pack)''')),
    pos("verbose-only side effect", ["C18"], ["R18.2"],
        (P, '''        self.debug_print("discarding ctor intializer")''', '''        self.debug_print("discarding ctor intializer %s", self.lex.token_peek_if(":"))''')),
    pos("hook called with a transformed argument", ["C18"], ["R18.3"],
        (P, "            content = options.preprocessor(filename, content)", "            content = options.preprocessor(str(filename), content)")),
    # ------------------------------------------------------------------ C19
    pos("filter compares with `in`", ["C19"], ["R19.1"],
        (PP, "            keep = line.endswith(line_ending)", "            keep = fname in line")),
    pos("filter gating inverted", ["C19"], ["R19.3"],
        (PP, '''        if not retain_all_content:
            result = _gcc_filter(filename, io.StringIO(result))''', '''        if retain_all_content:
            result = _gcc_filter(filename, io.StringIO(result))''')),
    # ------------------------------------------------------------------ C20
    pos("fsdecode dropped", ["C20"], ["R20.2"],
        (S, "    filename = os.fsdecode(filename)\n", "")),
    pos("json dump of something else", ["C20"], ["R20.4"],
        (("dump.py"), '''        ddata = dataclasses.asdict(data)
        json.dump(ddata, sys.stdout, indent=2)''', '''        ddata = data.__dict__
        json.dump(ddata, sys.stdout, indent=2)''')),
    pos("encoding dead again", ["C20"], ["R20.1"],
        (S, "    parser = CxxParser(filename, content, visitor, options, encoding)", "    parser = CxxParser(filename, content, visitor, options)")),
    # ================================================================== more negative controls
    neg("flag variable <-> inline isinstance test",
        (P, '''        is_class_block = isinstance(state, ClassBlockState)

        params, vararg, at_params = self._parse_parameters(True)''', '''        is_class_block = isinstance(state, ClassBlockState)
        in_class = is_class_block

        params, vararg, at_params = self._parse_parameters(True)''')),
    neg("early return instead of else branch in _parse_inline",
        (P, '''        itok = self.lex.token_if("namespace")
        if itok:
            self._parse_namespace(itok, doxygen, inline=True)
        else:
            self._parse_declarations(tok, doxygen)''', '''        itok = self.lex.token_if("namespace")
        if itok:
            self._parse_namespace(itok, doxygen, inline=True)
            return
        self._parse_declarations(tok, doxygen)''')),
    neg("set of types instead of tuple in a dispatch comparison",
        (P, '''        if tok_type not in (":", "{"):
            raise self._parse_error(tok)''', '''        if tok_type not in {":", "{"}:
            raise self._parse_error(tok)''')),
    neg("location local renamed in _parse_namespace",
        (P, '''        names = []
        location = tok.location
        ns_alias: typing.Union[typing.Literal[False], LexToken] = False''', '''        names = []
        where = tok.location
        location = where
        ns_alias: typing.Union[typing.Literal[False], LexToken] = False''')),
    neg("docstring and comment edits",
        (P, '''        # Check for an abbreviated template return type, promote it''', '''        # Check for an abbreviated template return type and promote it (C++20)''')),
    neg("types: c/v computed through a helper that keeps both",
        (TY, '''    def format(self) -> str:
        c = "const " if self.const else ""
        v = "volatile " if self.volatile else ""
        return f"{c}{v}{self.typename.format()}"''', '''    def _cv(self) -> str:
        c = "const " if self.const else ""
        v = "volatile " if self.volatile else ""
        return c + v

    def format(self) -> str:
        return f"{self._cv()}{self.typename.format()}"''')),
    neg("simple: extern block scope through a local",
        (S, '''        state.user_data = state.parent.user_data
        return None''', '''        state.user_data = state.parent.user_data
        return None  # transparent''')),
    neg("preprocessor: needle built by concatenation",
        (PP, """    line_ending = f'"{fname}"\\n'""", """    line_ending = '"' + fname + '"\\n'""")),
    neg("lexer: keyword set extended with an expression-only keyword already known",
        (L, '''    def t_NAME(self, t: LexToken) -> LexToken:
        if t.value in self.keywords:
            t.type = t.value
        return t''', '''    def t_NAME(self, t: LexToken) -> LexToken:
        value = t.value
        if value in self.keywords:
            t.type = t.value
        return t''')),
]

CONTROLS += [
    pos("integer suffix alternatives reordered (shorter alternative first)", ["C08"], ["R8.9"],
        (L, 'r"(([uU]ll)|([uU]LL)|(ll[uU]?)|(LL[uU]?)|([uU][lL])|([lL][uU]?)|[uU])?"', 'r"([uU]|([uU]ll)|([uU]LL)|(ll[uU]?)|(LL[uU]?)|([uU][lL])|([lL][uU]?))?"')),
    pos("location not refreshed for the next declarator", ["C10"], ["R10.7"],
        (P, '''            tok = self._next_token_must_be(",", ";")
            location = tok.location
            if tok.type == ";":
                break

    def _maybe_parse_class_enum_decl(''', '''            tok = self._next_token_must_be(",", ";")
            if tok.type == ";":
                break

    def _maybe_parse_class_enum_decl(''')),
]

CONTROLS += [
    pos("flag computed but not handed on (explicit of a class)", ["C01"], ["R1.9"],
        (P, """        clsdecl = ClassDecl(
            typename, bases, template, explicit, final, doxygen, self._current_access
        )""", """        clsdecl = ClassDecl(
            typename, bases, template, False, final, doxygen, self._current_access
        )""")),
    pos("parameter dropped: inline flag of a namespace", ["C01"], ["R1.9"],
        (P, "        ns = NamespaceDecl(names, inline, doxygen)", "        ns = NamespaceDecl(names, False, doxygen)"),
        (P, '''        if inline and len(names) > 1:
            raise CxxParseError("a nested namespace definition cannot be inline")
''', '')),
    pos("qualifier store dropped (ref-qualifier of a method)", ["C01"], ["R1.10"],
        (P, '''            elif tok_value in ("&", "&&"):
                method.ref_qualifier = tok_value''', '''            elif tok_value in ("&", "&&"):
                pass''')),
    neg("parser: default initialiser removed where every path assigns",
        (P, '''        base = None
        values: typing.List[Enumerator] = []

        if tok_type == ":":''', '''        base = None

        if tok_type == ":":''')),
]

CONTROLS += [
    pos("peek does not restore the token", ["C09"], ["R9.2"],
        (L, '''        tok = self.token_eof_ok()
        if not tok:
            return False
        self.tokbuf.appendleft(tok)
        return tok.type in types''', '''        tok = self.token_eof_ok()
        if not tok:
            return False
        if tok.type in types:
            self.tokbuf.appendleft(tok)
            return True
        return False''')),
]

CONTROLS += [
    pos("group suffix applied after descending into the group", ["C02"], ["R2.7"],
        (P, '''                # return the inner toks and recurse
                # -> this could return some weird results for invalid code, but
                #    we don't support that anyways so it's fine?
                self.lex.return_tokens(toks[1:-1])
                dtype = self._parse_cv_ptr_or_fn(dtype, nonptr_fn)
                break''', '''                self.lex.return_tokens(toks[1:-1])
                dtype = self._parse_cv_ptr_or_fn(dtype, nonptr_fn)
                if aptok and aptok.type == "[":
                    dtype = self._parse_array_type(aptok, dtype)
                break''')),
]

CONTROLS += [
    # -------------------------------------------------- round-2 rules (R17.2 nesting, R18.2 format, R11.6, R11.7, R9.7)
    pos("reference to pointer-to-array not handed to the pointee", ["C17"], ["R17.2"],
        (TY, '''        elif _wraps_declarator(ref_to):
            return ref_to.format_decl(f"& {name}")
''', '')),
    pos("function returning pointer-to-function appends its parameter list", ["C17"], ["R17.2"],
        (TY, '''            return self.return_type.format_decl(f"{name}({params}{vararg})")''', '''            return f"{self.return_type.format()} {name}({params}{vararg})"''')),
    pos("reference bypasses the pointer's own formatter", ["C17"], ["R17.2"],
        (TY, '''            return ref_to.format_decl("(&)")
        elif _wraps_declarator(ref_to):''', '''            return ref_to.format_decl("(&)")
        elif isinstance(ref_to, Pointer) and isinstance(ref_to.ptr_to, (Array, FunctionType)):
            return ref_to.ptr_to.format_decl("(*&)")
        elif _wraps_declarator(ref_to):''')),
    neg("declarator helper written with an explicit loop exit",
        (TY, '''    while isinstance(t, Pointer):
        t = t.ptr_to
    return isinstance(t, (Array, FunctionType))''', '''    while True:
        if not isinstance(t, Pointer):
            return isinstance(t, (Array, FunctionType))
        t = t.ptr_to''')),
    pos("debug_print call site pre-formats its data", ["C18"], ["R18.2"],
        (P, '''        self.debug_print("parameter: %s", param)''', '''        self.debug_print(f"parameter: {param}")''')),
    pos("debug_print format with a missing conversion", ["C18"], ["R18.2"],
        (P, '''        self.debug_print("parameter: %s", param)''', '''        self.debug_print("parameter:", param)''')),
    neg("verbose printer without '%': call sites may pre-format",
        (P, '''                fmt = f"[%4d] {fmt}"
                args = (inspect.currentframe().f_back.f_lineno,) + args  # type: ignore
                print(fmt % args)''', '''                print("[%4d]" % inspect.currentframe().f_back.f_lineno, fmt, *args)  # type: ignore'''),
        (P, '''        self.debug_print("parameter: %s", param)''', '''        self.debug_print(f"parameter: {param}")''')),
    pos("trailing-doc lookup moved before the initializer", ["C11"], ["R11.6"],
        (P, '''        # check for array
        tok = self.lex.token_if("[")
        if tok:
            dtype = self._parse_array_type(tok, dtype)
''', '''        if doxygen is None:
            doxygen = self.lex.get_doxygen_after()

        # check for array
        tok = self.lex.token_if("[")
        if tok:
            dtype = self._parse_array_type(tok, dtype)
''')),
    pos("plain comment no longer ends the trailing scan", ["C11"], ["R11.7"],
        (L, '''                if tok.value.endswith("\\n") and self._extract_comments([tok]) is None:
                    # a plain comment that ends the line ends the statement's
                    # documentation too: what follows belongs to the next one
                    break
                comments.append(tok)''', '''                comments.append(tok)''')),
    pos("plain comments skipped by the trailing scan", ["C11"], ["R11.7"],
        (L, '''                if tok.value.endswith("\\n") and self._extract_comments([tok]) is None:
                    # a plain comment that ends the line ends the statement's
                    # documentation too: what follows belongs to the next one
                    break
                comments.append(tok)''', '''                if tok.value.startswith(("///", "//!", "/**", "/*!")):
                    comments.append(tok)''')),
    neg("plain-comment test written with the four prefixes",
        (L, '''                if tok.value.endswith("\\n") and self._extract_comments([tok]) is None:''', '''                if tok.value.endswith("\\n") and not tok.value.startswith(("///", "//!", "/**", "/*!")):''')),
    pos("trailing scan drops the token after the comments", ["C09", "C11"], ["R9.7", "R11.5"],
        (L, '''            else:
                new_tokbuf.append(tok)
                if comments:
                    break

        new_tokbuf.extend(tokbuf)''', '''            else:
                if comments:
                    break
                new_tokbuf.append(tok)

        new_tokbuf.extend(tokbuf)''')),
    pos("doc comment inside the line not recorded by the trailing scan", ["C11"], ["R11.5"],
        (L, '''                if tok.value.endswith("\\n") and self._extract_comments([tok]) is None:''', '''                if not tok.value.endswith("\\n") or self._extract_comments([tok]) is None:''')),
]

CONTROLS += [
    pos("ctor recognition anchored at the first segment", ["C03"], ["R3.7"],
        (P, '''                        state.class_decl.typename.segments[-1], "name", None''', '''                        state.class_decl.typename.segments[0], "name", None''')),
    pos("destructor/ctor scope taken from the front of the qualified name", ["C03"], ["R3.7"],
        (P, '''                if not is_class_block:
                    # must be an instance of a class
                    cls_name = getattr(dsegments[-2], "name", None)''', '''                if not is_class_block:
                    # must be an instance of a class
                    cls_name = getattr(dsegments[0], "name", None)''')),
    pos("pcpp preprocessor object built once in the factory", ["C15"], ["R15.6"],
        (PP, '''    def _preprocess_file(filename: str, content: typing.Optional[str]) -> str:
        pp = _CustomPreprocessor(encoding, passthru_includes)
        if include_paths:''', '''    pp = _CustomPreprocessor(encoding, passthru_includes)

    def _preprocess_file(filename: str, content: typing.Optional[str]) -> str:
        if include_paths:''')),
    pos("gcc command line accumulated in the captured argument list", ["C15"], ["R15.6"],
        (PP, '''        cmd = gcc_args + ["-w", "-E", "-C"]
''', '''        cmd = gcc_args
        cmd.extend(["-w", "-E", "-C"])
'''),
        (PP, '''        for p in include_paths:
            cmd.append(f"-I{p}")
        for d in defines:
            cmd.append(f"-D{d.replace(' ', '=')}")

        kwargs = {"encoding": encoding}''', '''        for p in include_paths:
            gcc_args.append(f"-I{p}")
        for d in defines:
            cmd.append(f"-D{d.replace(' ', '=')}")

        kwargs = {"encoding": encoding}''')),
    neg("closure copies its captured list before extending it",
        (PP, '''        cmd = gcc_args + ["-w", "-E", "-C"]
''', '''        cmd = list(gcc_args)
        cmd += ["-w", "-E", "-C"]
''')),
    pos("stdin default codec differs from the file default", ["C20"], ["R20.6"],
        (S, '''    if encoding is None:
        encoding = "utf-8-sig"

    if filename == "-":''', '''    if filename == "-":'''),
        (S, '''            content = stdin_bytes.read().decode(encoding)''', '''            content = stdin_bytes.read().decode(encoding or "utf-8")''')),
    neg("default codec written as a conditional expression at the decode site",
        (S, '''    if encoding is None:
        encoding = "utf-8-sig"

    if filename == "-":''', '''    if filename == "-":'''),
        (S, '''            content = stdin_bytes.read().decode(encoding)''', '''            content = stdin_bytes.read().decode("utf-8-sig" if encoding is None else encoding)''')),
    pos("#line offset computed from the already re-based line", ["C06", "C10", "C19"], ["R6.6", "R10.3", "R19.4"],
        (L, '''            self.filename = m.group(3)
            self.line_offset = 1 + self.lex.lineno - int(m.group(2))''', '''            lineno = self.current_location().lineno
            self.filename = m.group(3)
            self.line_offset = 1 + lineno - int(m.group(2))''')),
]

CONTROLS += [
    # -------------------------------------------------- normaliser soundness: aliases that are NOT safe to see through
    pos("index computed before the append with the after-append formula", ["C01"], ["R1.6"],
        (P, '''            params.append(param)
            if at_type:''', '''            param_idx = len(params) - 1
            params.append(param)
            if at_type:'''),
        (P, '''                        param_idx=len(params) - 1,''', '''                        param_idx=param_idx,''')),
    neg("index computed before the append with the before-append formula",
        (P, '''            params.append(param)
            if at_type:''', '''            param_idx = len(params)
            params.append(param)
            if at_type:'''),
        (P, '''                        param_idx=len(params) - 1,''', '''                        param_idx=param_idx,''')),
    pos("length taken before the append, decremented after it", ["C01"], ["R1.6"],
        (P, '''            params.append(param)
            if at_type:''', '''            n_before = len(params)
            params.append(param)
            if at_type:'''),
        (P, '''                        param_idx=len(params) - 1,''', '''                        param_idx=n_before - 1,''')),
    # ------------------------------------------------------------------ round 5
    pos("trial parse only for arguments that start with a name", ["C02"], ["R2.2"],
        (P, """            if raw_toks and (
                raw_toks[0].type in self._pqname_start_tokens
                or raw_toks[0].type in ("const", "volatile")
            ):""", """            if raw_toks and raw_toks[0].type in self._pqname_start_tokens:""")),
    pos("template-argument mode takes every '(' for a parameter list", ["C02"], ["R2.8"],
        (P, """            elif nonptr_fn and not self.lex.token_peek_if("*", "&", "DBL_AMP"):""", """            elif nonptr_fn:""")),
    pos("no array suffix in the template-argument trial", ["C02", "C17"], ["R2.10", "R17.7"],
        (P, """                        atok = self.lex.token_if("[")
                        if atok:
                            dtype = self._parse_array_type(atok, dtype)
                        self._next_token_must_be(PhonyEnding.type)""", """                        self._next_token_must_be(PhonyEnding.type)""")),
    pos("']]' pops a second expectation without looking at it", ["C13", "C14", "C06"], ["R13.4", "R14.5", "R6.4"],
        (P, """                    and match_stack
                    and match_stack[-1] == "]"
                ):""", """                    and match_stack
                ):""")),
    pos("']]' not accepted for two '['", ["C13", "C14"], ["R13.4", "R14.5"],
        (P, """                if (
                    tok.type == "DBL_RBRACKET"
                    and expected == "]"
                    and match_stack
                    and match_stack[-1] == "]"
                ):
                    # the lexer fuses two closing brackets: a[b[0]]
                    match_stack.pop()
                elif tok.type != expected:""", """                if tok.type != expected:""")),
    neg("expectation stack as a plain list, emptied test by truthiness",
        (P, """        match_stack = deque((token_map[tok.type] for tok in consumed))""", """        match_stack = [token_map[tok.type] for tok in consumed]"""),
        (P, """                if len(match_stack) == 0:
                    return consumed""", """                if not match_stack:
                    return consumed""")),
    pos("tolerated '>' matched from the bottom of the stack", ["C13", "C14"], ["R13.4", "R14.5"],
        (P, """                    for i, maybe in enumerate(reversed(match_stack)):
                        if tok.type == maybe:
                            for _ in range(i + 1):
                                match_stack.pop()
                            break""", """                    for i, maybe in enumerate(match_stack):
                        if tok.type == maybe:
                            for _ in range(len(match_stack) - i):
                                match_stack.pop()
                            break""")),
    pos("enumerator: trailing lookup after the separator", ["C11"], ["R11.6"],
        (P, """            if doxygen is None:
                doxygen = self.lex.get_doxygen_after()

            name = name_tok.value
            value = None
""", """            name = name_tok.value
            value = None
"""), (P, """            values.append(Enumerator(name, value, doxygen))
""", """            if doxygen is None:
                doxygen = self.lex.get_doxygen_after()
            values.append(Enumerator(name, value, doxygen))
""")),
    pos("numeric conversion of token text in a debug_print", ["C18"], ["R18.2"],
        (P, """        self.debug_print("parameter: %s", param)""", """        self.debug_print("parameter: %s (%d)", param, tok.value)""")),
]
