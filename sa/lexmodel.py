"""E5 -- model of the embedded PLY lexer, re-derived from lexer.py and
_ply/lex.py on every run.  Nothing is imported from the package."""
from __future__ import annotations

import ast
import re
from typing import Dict, List, Optional, Set, Tuple

from .cfg import CFG
from .model import AnalysisError, Folder, Module, Repo, Unfoldable, attr_chain, norm, walk_local
from .rx import Auto


class Rule:
    def __init__(self, name: str, kind: str, regex: str, node: ast.AST, order_key):
        self.name = name  # t_XXX
        self.tokname = name[2:]
        self.kind = kind  # 'fn' | 'str'
        self.regex = regex
        self.node = node
        self.order_key = order_key
        self.prio = -1
        self._auto: Optional[Auto] = None
        # function rules only
        self.exits: Set[str] = set()  # subset of {'token', 'none', 'raise'}
        self.none_sites: List[ast.AST] = []
        self.type_stores: List[ast.AST] = []
        self.value_stores: List[ast.AST] = []
        self.lineno_updates: List[ast.AugAssign] = []
        self.discards = False  # a t_ignore_<x> string rule

    def auto(self, flags: int) -> Auto:
        if self._auto is None:
            self._auto = Auto(self.regex, flags, name=self.name)
        return self._auto

    @property
    def delivers(self) -> bool:
        return (self.kind == "str" and not self.discards) or "token" in self.exits


class LexModel:
    def __init__(self, repo: Repo):
        self.repo = repo
        self.lexer: Module = repo.mod("lexer")
        self.ply: Module = repo.mod("_ply.lex")
        self.cls = self.lexer.cls("PlyLexer")
        self.F: Folder = repo.folder("lexer", "PlyLexer")
        self.facts: Dict[str, str] = {}
        self._ply_facts()
        self.keywords: Set[str] = set(self._need("keywords", (set, frozenset)))
        self.tokens: List[str] = list(self._need("tokens", (list, tuple)))
        lits = self._need("literals", (list, tuple, str))
        self.literals: List[str] = list(lits)
        for l in self.literals:
            if not isinstance(l, str) or len(l) != 1:
                raise AnalysisError(f"lexer literal is not a single character: {l!r}")
        ign = self.F.get("t_ignore") if self.F.has("t_ignore") else ""
        self.ignore: str = ign
        self.rules: List[Rule] = []
        self.error_rule: Optional[ast.FunctionDef] = None
        self._collect_rules()
        self.by_name: Dict[str, Rule] = {r.name: r for r in self.rules}
        self.retypes: List[Tuple[str, str, str]] = []  # (rule, token text, token type)
        self._derive_retypes()
        ts = repo.folder("lexer", "TokenStream")
        self.discard: Set[str] = set(ts.get("_discard_types"))
        self.discard_nonl: Set[str] = set(ts.get("_discard_types_except_newline"))
        lts = repo.folder("lexer", "LexerTokenStream")
        self.udl_start: Set[str] = set(lts.get("_user_defined_literal_start"))

    # ------------------------------------------------------------------
    def _need(self, name: str, types) -> object:
        v = self.F.get(name)
        if not isinstance(v, types):
            raise AnalysisError(f"PlyLexer.{name} folded to unexpected type {type(v).__name__}")
        return v

    def _ply_facts(self) -> None:
        """Re-derive the three PLY facts the model depends on; refuse to guess
        when their anchors change shape."""
        lexfn = self.ply.func("lex")
        # (1) default regex flags
        flags = None
        for a, d in zip(lexfn.args.kwonlyargs, lexfn.args.kw_defaults):
            if a.arg == "reflags" and d is not None:
                flags = self._flag_value(d)
        pos_defaults = lexfn.args.defaults
        pos_args = lexfn.args.args[len(lexfn.args.args) - len(pos_defaults):] if pos_defaults else []
        for a, d in zip(pos_args, pos_defaults):
            if a.arg == "reflags":
                flags = self._flag_value(d)
        if flags is None:
            raise AnalysisError("PLY anchor changed: lex(reflags=...) default not found")
        # the call site in PlyLexer.__new__ must not override it
        calls = [c for q, f in self.lexer.functions() if q.startswith("PlyLexer.") for c in walk_local(f) if isinstance(c, ast.Call) and attr_chain(c.func) == ("lex", "lex")]
        if len(calls) != 1:
            raise AnalysisError("PLY anchor changed: the single lex.lex(...) call of PlyLexer not found")
        call = calls[0]
        for kw in call.keywords:
            if kw.arg == "reflags":
                flags = self._flag_value(kw.value)
        self.reflags = flags
        self.facts["reflags"] = f"{flags} (VERBOSE={bool(flags & re.VERBOSE)})"
        # (2) sort keys in LexerReflect.get_rules
        gr = self.ply.func("LexerReflect.get_rules")
        fsort = ssort = None
        for c in walk_local(gr):
            if isinstance(c, ast.Call) and isinstance(c.func, ast.Attribute) and c.func.attr == "sort":
                txt = norm(c)
                if "co_firstlineno" in txt and "reverse" not in txt:
                    fsort = txt
                elif "len(x[1])" in txt and "reverse=True" in txt:
                    ssort = txt
        if not fsort or not ssort:
            raise AnalysisError("PLY anchor changed: rule sort keys in LexerReflect.get_rules")
        self.facts["function-rule order"] = fsort
        self.facts["string-rule order"] = ssort
        # (3) functions before strings in the master regex; literal fallback in token()
        txt = norm(lexfn)
        i1 = txt.find("linfo.funcsym[state]")
        i2 = txt.find("linfo.strsym[state]")
        if i1 < 0 or i2 < 0 or not i1 < i2:
            raise AnalysisError("PLY anchor changed: master regex no longer lists function rules first")
        tok = norm(self.ply.func("Lexer.token"))
        if "in self.lexliterals" not in tok or "lexre.match(lexdata, lexpos)" not in tok:
            raise AnalysisError("PLY anchor changed: Lexer.token matching loop")
        if "tok.lineno = self.lineno" not in tok:
            raise AnalysisError("PLY anchor changed: token line stamping in Lexer.token")
        self.facts["master order"] = "function rules, then string rules, then single-character literals"

    def _flag_value(self, node: ast.AST) -> int:
        n = node
        if isinstance(n, ast.Call) and isinstance(n.func, ast.Name) and n.func.id == "int" and n.args:
            n = n.args[0]
        if isinstance(n, ast.Constant) and isinstance(n.value, int):
            return n.value
        if isinstance(n, ast.Attribute) and isinstance(n.value, ast.Name) and n.value.id == "re":
            return int(getattr(re, n.attr))
        if isinstance(n, ast.BinOp) and isinstance(n.op, ast.BitOr):
            return self._flag_value(n.left) | self._flag_value(n.right)
        raise AnalysisError(f"PLY anchor changed: cannot evaluate regex flags {norm(node)}")

    def _collect_rules(self) -> None:
        fns: List[Rule] = []
        strs: List[Rule] = []
        for st in self.cls.body:
            if isinstance(st, ast.FunctionDef) and st.name.startswith("t_"):
                if st.name == "t_error":
                    self.error_rule = st
                    continue
                rx = None
                for d in st.decorator_list:
                    if isinstance(d, ast.Call) and isinstance(d.func, ast.Name) and d.func.id == "TOKEN" and d.args:
                        try:
                            rx = self.F.ev(d.args[0])
                        except Unfoldable as e:
                            raise AnalysisError(f"cannot fold regex of {st.name}: {e}")
                if rx is None:
                    rx = ast.get_docstring(st, clean=False)
                if not isinstance(rx, str):
                    raise AnalysisError(f"rule {st.name} has no regular expression")
                first_line = min([st.lineno] + [d.lineno for d in st.decorator_list])
                r = Rule(st.name, "fn", rx, st, first_line)
                self._fn_effects(r)
                fns.append(r)
            elif isinstance(st, (ast.Assign, ast.AnnAssign)):
                tg = st.targets[0] if isinstance(st, ast.Assign) else st.target
                if isinstance(tg, ast.Name) and tg.id.startswith("t_") and tg.id not in ("t_ignore",):
                    v = self.F.get(tg.id)
                    if not isinstance(v, str):
                        raise AnalysisError(f"string rule {tg.id} did not fold to a string")
                    r_ = Rule(tg.id, "str", v, st, None)
                    if tg.id.startswith("t_ignore_"):
                        # PLY: a string rule named t_ignore_<x> matches like any other string rule and its text is dropped
                        # (no token, no rule function, hence no line accounting)
                        r_.discards = True
                    strs.append(r_)
        # a later definition of the same name replaces the earlier one
        def dedupe(rs: List[Rule]) -> List[Rule]:
            seen: Dict[str, Rule] = {}
            for r in rs:
                seen[r.name] = r
            return list(seen.values())

        fns = dedupe(fns)
        strs = dedupe(strs)
        fns.sort(key=lambda r: r.order_key)
        strs.sort(key=lambda r: r.name)  # dir() order
        strs.sort(key=lambda r: len(r.regex), reverse=True)  # stable
        self.rules = fns + strs
        for i, r in enumerate(self.rules):
            r.prio = i
        if not self.rules:
            raise AnalysisError("no lexer rules found")

    def noreturn_methods(self) -> Set[str]:
        """methods of the lexer class whose every path ends in a raise"""
        if getattr(self, "_noreturn", None) is None:
            out: Set[str] = set()
            for st in self.cls.body:
                if isinstance(st, ast.FunctionDef) and not st.name.startswith("t_"):
                    c = CFG(st)
                    if c.exit.id not in c.reachable() and any(n.kind == "stmt" and isinstance(n.stmt, ast.Raise) for n in c.nodes):
                        out.add(st.name)
            self._noreturn = out
        return self._noreturn

    def _fn_effects(self, r: Rule) -> None:
        fn: ast.FunctionDef = r.node  # type: ignore
        params = [a.arg for a in fn.args.args]
        if len(params) < 2:
            raise AnalysisError(f"rule function {fn.name} has no token parameter")
        tname = params[1]
        cfg = CFG(fn)
        err_calls = 0
        for n in cfg.nodes:
            st = n.stmt
            if n.kind == "stmt" and isinstance(st, ast.Return):
                v = st.value
                if v is None or (isinstance(v, ast.Constant) and v.value is None):
                    r.exits.add("none")
                    r.none_sites.append(st)
                else:
                    r.exits.add("token")
            if n.kind == "stmt" and isinstance(st, ast.Raise):
                r.exits.add("raise")
        # fall off the end
        for p, lab in cfg.exit.pred:
            if not (p.kind == "stmt" and isinstance(p.stmt, ast.Return)):
                # is this predecessor an unconditional call to a method of the class that never returns (self._error) ?
                pch = attr_chain(p.stmt.value.func) if p.kind == "stmt" and isinstance(p.stmt, ast.Expr) and isinstance(p.stmt.value, ast.Call) else None
                if pch is not None and len(pch) == 2 and pch[0] == "self" and pch[1] in self.noreturn_methods():
                    r.exits.add("raise")
                    err_calls += 1
                else:
                    r.exits.add("none")
                    r.none_sites.append(p.stmt if p.stmt is not None else fn)
        for st in walk_local(fn):
            if isinstance(st, ast.Assign):
                for t in st.targets:
                    ch = attr_chain(t)
                    if ch == (tname, "type"):
                        r.type_stores.append(st)
                    if ch == (tname, "value"):
                        r.value_stores.append(st)
            if isinstance(st, ast.AugAssign):
                ch = attr_chain(st.target)
                if ch is not None and len(ch) >= 2 and ch[-1] == "lineno":
                    r.lineno_updates.append(st)
                if ch == (tname, "value"):
                    r.value_stores.append(st)
            if isinstance(st, ast.Assign):
                for t in st.targets:
                    ch = attr_chain(t)
                    if ch is not None and len(ch) >= 2 and ch[-1] == "lineno":
                        r.lineno_updates.append(st)  # type: ignore[arg-type]

    def _derive_retypes(self) -> None:
        """Which token texts a rule function re-types, and to what.  Shapes the
        model follows: ``t.type = t.value`` under ``t.value in self.<set>`` and
        ``t.type = self.<dict>.get(t.value, t.type)`` / ``self.<dict>[t.value]``.
        Anything else is refused (exit 2) rather than guessed."""
        for r in self.rules:
            if r.kind != "fn" or not r.type_stores:
                continue
            fn: ast.FunctionDef = r.node  # type: ignore
            tname = fn.args.args[1].arg
            # locals that hold the token's text
            val_alias = {t.id for s2 in walk_local(fn) if isinstance(s2, ast.Assign) and attr_chain(s2.value) == (tname, "value") for t in s2.targets if isinstance(t, ast.Name)}

            def is_value(e: ast.AST) -> bool:
                return attr_chain(e) == (tname, "value") or (isinstance(e, ast.Name) and e.id in val_alias)

            for st in r.type_stores:
                v = st.value  # type: ignore[attr-defined]
                if is_value(v):
                    p = self.lexer.parent.get(st)
                    src = None
                    extra: List[ast.AST] = []
                    while p is not None and p is not fn:
                        if isinstance(p, ast.If) and any(x is st for b in p.body for x in ast.walk(b)):
                            # the membership test, alone or as one conjunct of an `and` (the other conjuncts are then
                            # evaluated for every member of the set: `len(t.value) <= 13 and t.value in self.keywords`)
                            conj = p.test.values if isinstance(p.test, ast.BoolOp) and isinstance(p.test.op, ast.And) else [p.test]
                            for c in conj:
                                if isinstance(c, ast.Compare) and len(c.ops) == 1 and isinstance(c.ops[0], ast.In) and is_value(c.left):
                                    ch = attr_chain(c.comparators[0])
                                    if ch and len(ch) == 2 and ch[0] == "self":
                                        src = ch[1]
                                        extra = [x for x in conj if x is not c]
                        p = self.lexer.parent.get(p)
                    if src is None:
                        raise AnalysisError(f"{r.name} re-types tokens to their own text without a membership test the model can follow")
                    vals = self.F.get(src)

                    def holds(e: ast.AST, text: str) -> bool:
                        def ev(x: ast.AST):
                            if isinstance(x, ast.Constant):
                                return x.value
                            if is_value(x):
                                return text
                            if isinstance(x, ast.Call) and isinstance(x.func, ast.Name) and x.func.id == "len" and len(x.args) == 1:
                                return len(ev(x.args[0]))
                            if isinstance(x, ast.Call) and isinstance(x.func, ast.Attribute) and x.func.attr in ("startswith", "endswith", "isidentifier", "isalpha", "islower") and is_value(x.func.value):
                                return getattr(text, x.func.attr)(*[ev(a) for a in x.args])
                            if isinstance(x, ast.UnaryOp) and isinstance(x.op, ast.Not):
                                return not ev(x.operand)
                            if isinstance(x, ast.Subscript) and not isinstance(x.slice, ast.Slice):
                                return ev(x.value)[ev(x.slice)]
                            if isinstance(x, ast.Compare) and len(x.ops) == 1:
                                l_, r_ = ev(x.left), ev(x.comparators[0])
                                op = x.ops[0]
                                return {ast.Eq: lambda: l_ == r_, ast.NotEq: lambda: l_ != r_, ast.Lt: lambda: l_ < r_, ast.LtE: lambda: l_ <= r_, ast.Gt: lambda: l_ > r_,
                                        ast.GtE: lambda: l_ >= r_, ast.In: lambda: l_ in r_, ast.NotIn: lambda: l_ not in r_}[type(op)]()
                            raise AnalysisError(f"{r.name}: a condition next to the keyword membership test is not modelled: `{norm(e)}`")
                        try:
                            return bool(ev(e))
                        except (KeyError, IndexError, TypeError):
                            raise AnalysisError(f"{r.name}: a condition next to the keyword membership test is not modelled: `{norm(e)}`")

                    for k in vals:
                        if all(holds(e_, k) for e_ in extra):
                            self.retypes.append((r.name, k, k))
                    continue
                d = None
                if isinstance(v, ast.Call) and isinstance(v.func, ast.Attribute) and v.func.attr == "get" and v.args and is_value(v.args[0]):
                    ch = attr_chain(v.func.value)
                    if ch and len(ch) == 2 and ch[0] == "self":
                        d = self.F.get(ch[1])
                if isinstance(v, ast.Subscript) and is_value(v.slice):
                    ch = attr_chain(v.value)
                    if ch and len(ch) == 2 and ch[0] == "self":
                        d = self.F.get(ch[1])
                if not isinstance(d, dict):
                    raise AnalysisError(f"{r.name} re-types tokens in a way the lexer model does not follow: `{norm(st)}`")
                for k, t in d.items():
                    self.retypes.append((r.name, k, t))

    # ------------------------------------------------------------------
    def auto(self, name: str) -> Auto:
        return self.by_name[name].auto(self.reflags)

    def rule(self, name: str) -> Rule:
        try:
            return self.by_name[name]
        except KeyError:
            raise AnalysisError(f"anchor vanished: lexer rule {name}")

    def delivered_types(self) -> Set[str]:
        """Every token *type* the PLY layer can hand out."""
        out: Set[str] = set()
        for r in self.rules:
            if r.delivers:
                out.add(r.tokname)
        out |= set(self.literals)
        out |= {t for _, _, t in self.retypes}
        return out

    def stream_types(self) -> Set[str]:
        """Token types LexerTokenStream can deliver (adds the fused UD_ types)."""
        return self.delivered_types() | {f"UD_{t}" for t in self.udl_start}
