"""Collector agreement (R1.2 / R4.7): SimpleCxxVisitor stores each payload
exactly once, on every path, in the list of the state's scope whose declared
element type is the payload's type."""
from __future__ import annotations

import ast
from typing import Dict, List, Optional, Set, Tuple

from .cfg import CFG
from .kinds import node_containing
from .model import AnalysisError, Module, annotation_names, attr_chain, norm, short, walk_local
from .report import Ctx
from .vmodel import STATE_CLASSES, VisitorModel


def list_elem(ann: Optional[ast.AST]) -> Optional[List[str]]:
    """Element type names of typing.List[...] / List[...] ; None if not a list."""
    if ann is None:
        return None
    if isinstance(ann, ast.Constant) and isinstance(ann.value, str):
        try:
            return list_elem(ast.parse(ann.value, mode="eval").body)
        except SyntaxError:
            return None
    if isinstance(ann, ast.Subscript):
        head = annotation_names(ann.value)
        if head and head[0] in ("List", "list"):
            return annotation_names(ann.slice)
    return None


class SimpleModel:
    def __init__(self, vm: VisitorModel):
        self.vm = vm
        self.mod: Module = vm.repo.mod("simple")
        self.fields: Dict[str, Dict[str, ast.AST]] = {}
        for cname, cnode in self.mod.classes():
            if any(isinstance(d, ast.Name) and d.id == "dataclass" or isinstance(d, ast.Call) and getattr(d.func, "id", "") == "dataclass" for d in cnode.decorator_list):
                self.fields[cname] = {st.target.id: st.annotation for st in cnode.body if isinstance(st, ast.AnnAssign) and isinstance(st.target, ast.Name)}
        for need in ("ClassScope", "NamespaceScope", "ParsedData"):
            if need not in self.fields:
                raise AnalysisError(f"anchor vanished: simple.{need} dataclass")
        # state aliases: name -> set of user_data class names
        self.user_data: Dict[str, Set[str]] = {}
        for st in self.mod.tree.body:
            if isinstance(st, ast.Assign) and len(st.targets) == 1 and isinstance(st.targets[0], ast.Name):
                v = st.value
                nm = st.targets[0].id
                if isinstance(v, ast.Subscript):
                    head = annotation_names(v.value)
                    if head and head[0] in STATE_CLASSES:
                        elts = v.slice.elts if isinstance(v.slice, ast.Tuple) else [v.slice]
                        self.user_data[nm] = set(annotation_names(elts[0]))
                    elif head and head[0] == "Union":
                        out: Set[str] = set()
                        elts = v.slice.elts if isinstance(v.slice, ast.Tuple) else [v.slice]
                        okk = True
                        for e in elts:
                            n = annotation_names(e)
                            if n and n[0] in self.user_data:
                                out |= self.user_data[n[0]]
                            else:
                                okk = False
                        if okk and out:
                            self.user_data[nm] = out
        self.cls = self.mod.cls("SimpleCxxVisitor")
        self.methods = self.mod.methods("SimpleCxxVisitor")

    def scopes_of(self, fn: ast.FunctionDef) -> Optional[Set[str]]:
        if len(fn.args.args) < 2:
            return None
        n = annotation_names(fn.args.args[1].annotation)
        if n and n[0] in self.user_data:
            return set(self.user_data[n[0]])
        return None


def check_fold(ctx: Ctx, rid: str, vm: VisitorModel) -> None:
    sm = SimpleModel(vm)
    mod = sm.mod
    ctx.rule(rid, "SimpleCxxVisitor: every payload-carrying callback appends its payload exactly once, on every path, to the list of the state's scope whose element type is the payload type", minimum=20)
    for name, cb in sorted(vm.callbacks.items()):
        fn = sm.methods.get(name)
        key = f"simple:SimpleCxxVisitor.{name}"
        if fn is None:
            ctx.ob(rid, key + "|defined", False, msg=f"SimpleCxxVisitor lacks the protocol member {name}", node=sm.cls, mod=mod, nontrivial=False)
            continue
        params = [a.arg for a in fn.args.args[1:]]
        ctx.ob(rid, key + "|arity", len(params) == len(cb.params), msg=f"{name} takes {len(params)} arguments, the protocol passes {len(cb.params)}", node=fn, mod=mod, nontrivial=False)
        if len(cb.params) < 2 or name.endswith("_start") or name.endswith("_end"):
            continue
        payload = params[1] if len(params) > 1 else None
        state = params[0]
        scopes = sm.scopes_of(fn)
        cfg = CFG(fn)
        # narrowing asserts on state.user_data
        for n in cfg.nodes:
            c = n.cond
            if n.kind == "test" and isinstance(n.stmt, ast.Assert) and isinstance(c, ast.Call) and getattr(c.func, "id", "") == "isinstance" and attr_chain(c.args[0]) == (state, "user_data") and scopes is not None:
                nm = annotation_names(c.args[1])
                scopes &= set(nm)
        # locals built from the payload by a constructor
        wrappers: Dict[str, str] = {}
        for st in walk_local(fn):
            if isinstance(st, ast.Assign) and len(st.targets) == 1 and isinstance(st.targets[0], ast.Name) and isinstance(st.value, ast.Call) and isinstance(st.value.func, ast.Name):
                if any(isinstance(x, ast.Name) and x.id == payload for x in walk_local(st.value)):
                    wrappers[st.targets[0].id] = st.value.func.id
        # locals that alias the scope / the result object
        alias: Dict[str, Tuple[str, ...]] = {}
        for st in walk_local(fn):
            if isinstance(st, ast.Assign) and len(st.targets) == 1 and isinstance(st.targets[0], ast.Name):
                ch0 = attr_chain(st.value)
                if ch0 in ((state, "user_data"), ("self", "data")):
                    alias[st.targets[0].id] = ch0
        appends: List[Tuple[ast.Call, str, str, str]] = []  # (call, container kind, field, element class)
        for c in walk_local(fn):
            if isinstance(c, ast.Call) and isinstance(c.func, ast.Attribute) and c.func.attr in ("append", "insert", "extend", "add"):
                ch = attr_chain(c.func.value)
                if ch is None or not c.args:
                    continue
                if ch[0] in alias:
                    ch = alias[ch[0]] + ch[1:]
                a = c.args[-1]
                elem = None
                if isinstance(a, ast.Name) and a.id == payload:
                    elem = "<payload>"
                elif isinstance(a, ast.Name) and a.id in wrappers:
                    elem = wrappers[a.id]
                elif isinstance(a, ast.Call) and isinstance(a.func, ast.Name) and any(isinstance(x, ast.Name) and x.id == payload for x in walk_local(a)):
                    elem = a.func.id
                if elem is None:
                    continue
                if len(ch) == 3 and ch[0] == state and ch[1] == "user_data":
                    appends.append((c, "scope", ch[2], elem))
                elif len(ch) == 3 and ch[0] == "self" and ch[1] == "data":
                    appends.append((c, "data", ch[2], elem))
                else:
                    appends.append((c, "other:" + ".".join(ch), ch[-1], elem))
        why = []
        ok = len(appends) == 1 and appends[0][0].func.attr == "append"
        if not appends:
            why.append("the payload is never stored")
        elif len(appends) > 1:
            why.append(f"the payload is stored {len(appends)} times")
        if ok:
            call, kind, field, elem = appends[0]
            n = node_containing(cfg, call)
            if n is None or cfg.in_loop(n) or cfg.paths_avoiding(cfg.entry, cfg.exit, lambda x: x is n):
                ok = False
                why.append("the append is not executed exactly once on every path")
            want = cb.payload_types
            if kind == "scope":
                owners = scopes or set()
                if not owners:
                    ok = False
                    why.append("cannot determine the scope class of state.user_data")
            elif kind == "data":
                owners = {"ParsedData"}
            else:
                owners = set()
                ok = False
                why.append(f"payload stored into `{kind[6:]}`, not into the scope of its state")
            for o in sorted(owners):
                ann = sm.fields.get(o, {}).get(field)
                el = list_elem(ann)
                if el is None:
                    ok = False
                    why.append(f"{o} has no list field `{field}`")
                    continue
                have = [elem] if elem != "<payload>" else want
                if set(el) != set(have):
                    ok = False
                    why.append(f"{o}.{field} holds {el} but {name} stores {have}")
        ctx.ob(rid, key + "|store", ok, msg="; ".join(why), node=fn, mod=mod)
    # class start: one ClassScope per class block, appended to the parent's classes, bound to the state
    fn = sm.methods.get("on_class_start")
    if fn is not None:
        txt = norm(fn)
        st = fn.args.args[1].arg
        ok = (
            f"ClassScope({st}.class_decl)" in txt
            and f"{st}.parent.user_data" in txt
            and ".classes.append(" in txt
            and f"{st}.user_data = " in txt
        )
        cfg = CFG(fn)
        apps = [c for c in walk_local(fn) if isinstance(c, ast.Call) and isinstance(c.func, ast.Attribute) and c.func.attr == "append"]
        if ok:
            ok = len(apps) == 1
            if ok:
                n = node_containing(cfg, apps[0])
                ok = n is not None and not cfg.in_loop(n) and not cfg.paths_avoiding(cfg.entry, cfg.exit, lambda x: x is n)
                a = apps[0].args[0]
                binds = [s for s in walk_local(fn) if isinstance(s, ast.Assign) and attr_chain(s.targets[0]) == (st, "user_data")]
                ok = ok and len(binds) == 1 and isinstance(a, ast.Name) and isinstance(binds[0].value, ast.Name) and binds[0].value.id == a.id
        ctx.ob(rid, "simple:SimpleCxxVisitor.on_class_start|scope creation", ok,
               msg="on_class_start does not (once, on every path) create one ClassScope from state.class_decl, append it to the parent's classes and bind the same object to state.user_data", node=fn, mod=mod)
